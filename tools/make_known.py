#!/usr/bin/env python3
"""Regenerates known_findings.json (committed; read-only at run time)."""
import json, os, subprocess
HERE = os.path.dirname(os.path.dirname(os.path.abspath(__file__)))

def commit_of(subject_prefix):
    out = subprocess.run(["git", "-C", "/repo", "log", "--format=%h %s"], capture_output=True, text=True).stdout
    for line in out.splitlines():
        h, s = line.split(" ", 1)
        if s.startswith(subject_prefix):
            return h
    raise SystemExit("no commit: " + subject_prefix)

F = []
def fixed(props, key, subject, what):
    c = commit_of(subject)
    for p in props:
        F.append({"property": p, "key": f"{p}:{key}", "status": "fixed", "commit": c, "what": what,
                  "line": f"fixed: property={p} {c} {what}"})
def known(prop, key, what, witness):
    F.append({"property": prop, "key": f"{prop}:{key}", "status": "known", "what": what, "witness": witness})

fixed(["C20"], "unequal-compare-equal:child-*-non-last-child", "fix: compare all children",
      "IndiMessage.to_dict kept only the last child, so messages differing in any other child or in the number of children compared equal")
fixed(["C03"], "parse-rejects-own-output:message", "fix: register the plain <message> kind",
      "Message was not registered with the parser: <message/> notices the library emits were unparseable")
fixed(["C13"], "accepts-nonconformant:*-vocabulary:python-internal-string|absent-value", "fix: vocabulary check must only accept",
      "checks.dictionary tested membership in Class.__dict__.values(): state='indi.message.const' and missing switch/light values were accepted")
fixed(["C13"], "accepts-nonconformant:light-value-vocabulary:other-string", "fix: top-level oneLight message validates",
      "the top-level OneLight message kind stored any text as light state")
fixed(["C10", "C13", "C07"], "number conventions", "fix: number text follows the INDI conventions",
      "negative sexagesimal values rendered with floor (-12.2625 -> '-13:44:15'), parser mirrored it ('-0:30' -> +0.5), width/+/space renderings rejected by the validator, decimal text for %m and sexagesimal text for %f rejected, \\d matched non-ASCII digits")
fixed(["C02", "C11", "C08"], "process-hang:threshold-disabled:callback-given-None", "fix: Buffer.process no longer spins",
      "Buffer.process looped forever (calling the callback with None) when the threshold is disabled and no complete message is buffered")
fixed(["C05", "C08"], "blob-delivered-despite-policy-Never|blob-missing-for-policy-Only", "fix: router recognises BLOB updates",
      "Router.is_blob tested NewBLOBVector: setBLOBVector went to Never clients and not to Only clients")
fixed(["C05", "C08"], "nonblob-missing-for-policy-Also", "fix: enableBLOB Also delivers",
      "a client with policy Also received no non-BLOB messages at all")
fixed(["C07", "C01"], "group-lost-in-inheritance:depth3", "fix: drivers inherit groups from all ancestors",
      "Driver._all_group_definitions looked at direct bases only: C(B(A)) lost the groups declared in A")
fixed(["C07", "C01"], "driver-emits-invalid-message:own-parser-rejects:DefNumberVector:number-without-min-max", "fix: defNumber always carries",
      "numbers declared without min/max were defined without those required attributes; the library's own parser rejected the definition")
fixed(["C07", "C01", "C08"], "driver-emits-invalid-message:own-parser-rejects:SetBLOBVector:blob-without-size-format", "fix: an unset BLOB is published",
      "unset BLOB elements were published as <oneBLOB name=.../> without size/format, which the library's own parser rejects")
fixed(["C09"], "operation-raises:selected*:AttributeError", "fix: SwitchVector.selected_values setter",
      "selected_values= / selected_value= always raised (iterated over dict keys)")

EXTRA = os.path.join(HERE, "tools", "known_extra.py")
if os.path.exists(EXTRA):
    exec(open(EXTRA).read())

json.dump({"findings": F}, open(os.path.join(HERE, "known_findings.json"), "w"), indent=1)
print(len(F), "entries")
