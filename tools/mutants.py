#!/venv/bin/python
"""Sensitivity runner (DESIGN §5.2): applies deliberate property-breaking
edits from mutants/catalogue.json to a scratch copy of /repo (never /repo
itself), runs the quick check with VERIF_REPO pointing there and reports
whether the check fires.

  tools/mutants.py                 run the whole catalogue
  tools/mutants.py C07 C09         only mutants aimed at these properties
  tools/mutants.py --id m-c09-1    one mutant
"""
import json
import os
import shutil
import subprocess
import sys
import tempfile
from concurrent.futures import ThreadPoolExecutor

HERE = os.path.dirname(os.path.dirname(os.path.abspath(__file__)))
REPO = "/repo"


def run_one(m, keep=False):
    tmp = tempfile.mkdtemp(prefix="vfmut-", dir="/tmp")
    dst = os.path.join(tmp, "repo")
    try:
        shutil.copytree(REPO, dst, ignore=shutil.ignore_patterns(".git", "__pycache__", "*.egg-info", "docker-examples"))
        for ed in m["edits"]:
            p = os.path.join(dst, ed["file"])
            s = open(p).read()
            if s.count(ed["old"]) != 1:
                return m, "BROKEN-MUTANT", f"{ed['file']}: old text occurs {s.count(ed['old'])} times", {}
            open(p, "w").write(s.replace(ed["old"], ed["new"]))
        results = {}
        for prop in m["props"]:
            env = dict(os.environ, VERIF_REPO=dst, PYTHONDONTWRITEBYTECODE="1")
            try:
                r = subprocess.run([os.path.join(HERE, "check"), prop, "--tier", "quick", "--no-evidence"], env=env,
                                   capture_output=True, text=True, timeout=1500)
                keys = [l.strip() for l in r.stdout.splitlines() if l.strip().startswith("key=")]
                results[prop] = (r.returncode, keys[:3], r.stdout[-300:] if r.returncode not in (0, 1) else "")
            except subprocess.TimeoutExpired:
                results[prop] = (-9, [], "timeout")
        fired = [p for p, (rc, _, _) in results.items() if rc == 1]
        expect = m.get("expect", "caught")
        if expect == "caught":
            verdict = "CAUGHT" if fired else "MISSED"
        else:
            verdict = "SILENT-OK" if not fired and all(rc == 0 for rc, _, _ in results.values()) else "FALSE-ALARM"
        return m, verdict, "", results
    finally:
        shutil.rmtree(tmp, ignore_errors=True)


def main(argv):
    cat = json.load(open(os.path.join(HERE, "mutants", "catalogue.json")))
    sel = cat
    if argv and argv[0] == "--id":
        sel = [m for m in cat if m["id"] in argv[1:]]
    elif argv:
        sel = [m for m in cat if set(m["props"]) & set(argv)]
        for m in sel:
            m["props"] = [p for p in m["props"] if p in argv]
    bad = 0
    with ThreadPoolExecutor(max_workers=int(os.environ.get("MUT_JOBS", "8"))) as ex:
        for m, verdict, note, results in ex.map(run_one, sel):
            line = f"{verdict:12} {m['id']:28} {','.join(m['props']):12} {m['note'][:70]}"
            print(line, note)
            for p, (rc, keys, tail) in results.items():
                print(f"      {p} rc={rc} {' | '.join(k[:110] for k in keys)} {tail}")
            if verdict in ("MISSED", "FALSE-ALARM", "BROKEN-MUTANT"):
                bad += 1
    print(f"{len(sel)} mutants, {bad} need attention")
    return 1 if bad else 0


if __name__ == "__main__":
    sys.exit(main(sys.argv[1:]))
