#!/bin/bash
# usage: tools/run_all.sh quick|thorough [seed] [props...]   -> one line per property: id rc wall
tier=${1:-quick}; seed=${2:-0}; shift; shift
props=${@:-C01 C02 C03 C04 C05 C06 C07 C08 C09 C10 C11 C12 C13 C14 C15 C16 C17 C18 C19 C20}
cd "$(dirname "$0")/.."
for p in $props; do
  t0=$(date +%s)
  VERIF_SEED=$seed ./check $p --tier $tier --no-evidence > /tmp/runall-$p-$tier-$seed.log 2>&1
  rc=$?
  echo "$p tier=$tier seed=$seed rc=$rc wall=$(( $(date +%s) - t0 ))s $(grep -E '^(HELD|VIOLATION|INCONCLUSIVE|KNOWN)' /tmp/runall-$p-$tier-$seed.log | head -3 | cut -c1-160 | tr '\n' '|')"
done
