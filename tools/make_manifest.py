#!/usr/bin/env python3
"""Regenerates MANIFEST.json from the table below (keeps it valid at all times)."""
import json
import os

HERE = os.path.dirname(os.path.dirname(os.path.abspath(__file__)))

CHECKS = {
    "C01": ("exploration", "history + reference mirror: full in-memory client/server stack, generated drivers, fragmented wires, view equality at every quiescent point", "§3 C01"),
    "C02": ("exploration", "online delivery oracle over the real Buffer under all 1-cut (2-/3-cut in thorough) partitions + sys.monitoring step budget", "§3 C02"),
    "C03": ("exploration", "round-trip monitor with an independent structural view over the enumerated grammar and foreign spellings", "§3 C03"),
    "C04": ("exploration", "lock-step reference-model monitor, exhaustive BFS over router states with recording endpoints", "§3 C04"),
    "C05": ("exploration", "lock-step reference-model monitor, exhaustive BFS over router states and BLOB policies", "§3 C05"),
    "C06": ("exploration", "before/after snapshot monitor over every element of a multi-device deployment for client writes through the full stack", "§3 C06"),
    "C07": ("exploration", "boundary recorder on Router.process_message + self-validity monitor on every driver-emitted message vs expected definitions", "§3 C07"),
    "C08": ("exploration", "payload integrity monitor over every length 0..N through the full stack with step budget and bounded-progress watchdog", "§3 C08"),
    "C09": ("exploration", "invariant monitor over the exhaustively enumerated switch state graph incl. every published update", "§3 C09"),
    "C10": ("exploration", "reference INDI number parser as oracle over format x value grids and the enumerated number grammar", "§3 C10"),
    "C11": ("exploration", "termination (step budget), exception, genuineness, boundedness and bounded-progress monitors on the real Buffer fed hostile streams", "§3 C11"),
    "C12": ("fault_enumeration", "hostile-message catalogue injected at every position of a session on real TCP/TTY handlers and direct router calls; escape/registration/state/reply monitors", "§3 C12"),
    "C13": ("exploration", "independent DTD-conformance validator applied to everything the parser accepts under systematic perturbation", "§3 C13"),
    "C14": ("exploration", "sequence-numbered trace of handler invocations, publications and operation boundaries judged against the event contract", "§3 C14"),
    "C15": ("exploration", "reference INDI client interpreter in lock-step with the real client after every message of generated server streams", "§3 C15"),
    "C16": ("exploration", "per-callback event logs vs events derived by the reference interpreter; chain-continuity monitor", "§3 C16"),
    "C17": ("exploration", "virtual-clock event loop; completion instants and poll instants judged over an enumerated arrival grid", "§3 C17"),
    "C18": ("fault_enumeration", "connection faults injected at every step index of session scripts on real handlers; registry/closure/traffic monitors", "§3 C18"),
    "C19": ("exploration", "exhaustive DFS over the completion order of fake drain futures and gated thread-pool writes; output split by an independent XML splitter", "§3 C19"),
    "C20": ("exploration", "every single-point perturbation of generated messages compared with == / != against an independent structural view", "§3 C20"),
}

TEXT = {
    "exploration": "Held on every execution the monitors observed (counts, distinct cases, states and samples are in the evidence file); bounded or sampled exploration of the quantifier, complete enumeration where the evidence says exhaustive. Not a proof.",
    "fault_enumeration": "Every fault of the catalogue injected at every position of the session scripts on the real handlers; held on all of them. Not a proof beyond the catalogue and scripts listed in the evidence.",
}

NOTE = ("Trusted base: CPython 3.12, the harness' reference models (vf/ref) and generators, fake streams that implement exactly the "
        "read/write/drain/close/readline/flush surface the handlers use. No indipy source hook is needed (monitors are installed from the outside).")


def main():
    built = sorted(f[:-3] for f in os.listdir(os.path.join(HERE, "vf", "props")) if f.startswith("C") and f.endswith(".py"))
    checks = []
    na = []
    for pid in sorted(CHECKS):
        level, tech, ref = CHECKS[pid]
        if pid not in built:
            na.append({"property_id": pid, "reason": "check designed (DESIGN.md %s) but not built yet in this tree" % ref})
            continue
        checks.append({
            "property_id": pid,
            "quick_cmd": f"./check {pid} --tier quick",
            "thorough_cmd": f"./check {pid} --tier thorough",
            "evidence_file": f"/verif/evidence/{pid}.json",
            "replay_cmd_template": f"./check {pid} --replay {{path}}",
            "engine": "vf",
            "level_claimed": {"category": level, "text": TEXT[level], "design_ref": "DESIGN.md " + ref},
            "level_note": NOTE,
            "technique": "runtime monitoring: " + tech,
        })
    man = {
        "version": 1,
        "setup_cmd": "./check --selftest",
        "hooks": {
            "guard": "INDIPY_VERIF",
            "enable": "no source hooks: monitors wrap class attributes, watch sys.monitoring line events and drive fake streams from the harness; the guard variable is only read by the harness",
            "baseline_off_cmd": "cd /repo && /venv/bin/python -m pytest -ra -q -p no:cacheprovider --timeout=900 --continue-on-collection-errors",
            "source_commits": [],
            "add_only": True,
        },
        "engines": [{"name": "vf", "path": "/verif/vf", "serves_properties": [c["property_id"] for c in checks],
                     "kind_free_text": "pure-stdlib runtime-monitoring harness (boundary recorders, step budgets, fake streams, virtual clock, reference models)"}],
        "checks": checks,
        "not_applicable": na,
        "notes": "See DESIGN.md. known_findings.json lists repaired defects (fixed) and recorded ones (known).",
    }
    with open(os.path.join(HERE, "MANIFEST.json"), "w") as f:
        json.dump(man, f, indent=1)
        f.write("\n")
    print(len(checks), "checks,", len(na), "not built")


if __name__ == "__main__":
    main()
