#!/venv/bin/python
"""Ingest and confirm a seeded break produced by an independent sub-agent.

  tools/seeded.py ingest C05 /tmp/wt-C05 [--name x]   copy patch/demo/notes to seeded/<id>/, confirm, run checks
  tools/seeded.py run [ID ...]                      re-run the checks against every kept seeded change

Confirmation happens on a scratch copy of /repo's HEAD outside /repo and /verif:
demo passes without the patch, fails with it, the repository's own test suite
passes with it; then the listed checks run with VERIF_REPO pointing at the copy."""
import json
import os
import shutil
import subprocess
import sys
import tempfile
import time

HERE = os.path.dirname(os.path.dirname(os.path.abspath(__file__)))
PY = "/venv/bin/python"


def sh(cmd, cwd=None, env=None, timeout=3000):
    r = subprocess.run(cmd, cwd=cwd, env=env, shell=isinstance(cmd, str), capture_output=True, text=True, timeout=timeout)
    return r.returncode, (r.stdout + r.stderr)


def scratch():
    tmp = tempfile.mkdtemp(prefix="seedchk-", dir="/tmp")
    dst = os.path.join(tmp, "repo")
    rc, out = sh(["git", "-C", "/repo", "worktree", "add", "-q", "--detach", dst, "HEAD"])
    if rc:
        raise SystemExit(out)
    return tmp, dst


def drop(tmp, dst):
    sh(["git", "-C", "/repo", "worktree", "remove", "--force", dst])
    shutil.rmtree(tmp, ignore_errors=True)


def confirm(sdir, props, full_suite=True):
    meta = {}
    tmp, dst = scratch()
    try:
        env = dict(os.environ, PYTHONDONTWRITEBYTECODE="1", PYTHONPATH=dst)
        # same layout as in the sub-agent's worktree: <worktree>/_seeded/demo.py, run from the worktree root
        os.makedirs(os.path.join(dst, "_seeded"), exist_ok=True)
        demo = os.path.join(dst, "_seeded", "demo.py")
        shutil.copy(os.path.join(sdir, "demo.py"), demo)
        rc0, out0 = sh([PY, demo], cwd=dst, env=env, timeout=600)
        meta["demo_without_patch"] = {"rc": rc0, "tail": out0[-300:]}
        rc, out = sh(["git", "apply", os.path.join(sdir, "patch.diff")], cwd=dst)
        if rc:
            meta["apply_error"] = out[-500:]
            return meta
        rc1, out1 = sh([PY, demo], cwd=dst, env=env, timeout=600)
        meta["demo_with_patch"] = {"rc": rc1, "tail": out1[-400:]}
        t0 = time.time()
        sel = "tests" if full_suite else "tests/indi/message tests/indi/device tests/indi/routing"
        rc2, out2 = sh(f"{PY} -m pytest -q -p no:cacheprovider {sel} 2>&1 | tail -3", cwd=dst, env=env, timeout=3000)
        meta["suite_with_patch"] = {"cmd": f"pytest -q {sel}", "tail": out2[-300:], "wall_s": round(time.time() - t0)}
        meta["checks"] = {}
        for p in props:
            cenv = dict(os.environ, VERIF_REPO=dst, PYTHONDONTWRITEBYTECODE="1")
            t0 = time.time()
            rc3, out3 = sh([os.path.join(HERE, "check"), p, "--tier", "quick", "--no-evidence"], env=cenv, timeout=3000)
            keys = [l.strip()[:220] for l in out3.splitlines() if l.strip().startswith("key=")]
            meta["checks"][p] = {"rc": rc3, "keys": keys[:5], "wall_s": round(time.time() - t0),
                                 "tail": out3[-300:] if rc3 not in (0, 1) else ""}
        return meta
    finally:
        drop(tmp, dst)


def ingest(pid, wt, name=None, extra_props=()):
    name = name or pid
    sdir = os.path.join(HERE, "seeded", name)
    os.makedirs(sdir, exist_ok=True)
    for f in ("patch.diff", "demo.py", "notes.md"):
        shutil.copy(os.path.join(wt, "_seeded", f), os.path.join(sdir, f))
    props = [pid] + [p for p in extra_props if p != pid]
    meta = {"property": pid, "source": "independent sub-agent given only the property text and a scratch worktree",
            "needs_to_manifest": "see notes.md"}
    meta.update(confirm(sdir, props))
    ok = (meta.get("demo_without_patch", {}).get("rc") == 0 and meta.get("demo_with_patch", {}).get("rc", 0) != 0
          and " passed" in meta.get("suite_with_patch", {}).get("tail", "") and "failed" not in meta.get("suite_with_patch", {}).get("tail", ""))
    meta["confirmed"] = bool(ok)
    meta["caught_by"] = [p for p, r in meta.get("checks", {}).items() if r["rc"] == 1]
    with open(os.path.join(sdir, "meta.json"), "w") as f:
        json.dump(meta, f, indent=1)
    print(json.dumps({k: meta[k] for k in ("property", "confirmed", "caught_by")}), json.dumps(meta.get("checks"))[:600])
    print("demo without:", meta.get("demo_without_patch"), "\ndemo with:", meta.get("demo_with_patch"), "\nsuite:", meta.get("suite_with_patch"))


def rerun(names):
    base = os.path.join(HERE, "seeded")
    for name in sorted(os.listdir(base)):
        sdir = os.path.join(base, name)
        mp = os.path.join(sdir, "meta.json")
        if not os.path.exists(mp) or (names and name not in names):
            continue
        meta = json.load(open(mp))
        props = list(meta.get("checks", {meta["property"]: 0}))
        res = confirm(sdir, props, full_suite=False)
        if "apply_error" in res or not res.get("checks"):
            print(name, "PATCH-DOES-NOT-APPLY (meta.json left as it was):", res.get("apply_error", "")[:300])
            continue
        meta["checks"] = res.get("checks", {})
        meta["caught_by"] = [p for p, r in meta["checks"].items() if r["rc"] == 1]
        json.dump(meta, open(mp, "w"), indent=1)
        print(name, "caught by", meta["caught_by"], {p: r["keys"][:1] for p, r in meta["checks"].items()})


def table():
    base = os.path.join(HERE, "seeded")
    rows = ["| seeded change | what it is / what it needs to manifest | confirmed (demo without / with, suite) | caught by (quick tier) | first key |", "|---|---|---|---|---|"]
    summaries = json.load(open(os.path.join(base, "summaries.json")))
    for name in sorted(os.listdir(base)):
        mp = os.path.join(base, name, "meta.json")
        if not os.path.exists(mp):
            continue
        m = json.load(open(mp))
        m.setdefault("summary", summaries.get(name, ""))
        conf = f"{m.get('demo_without_patch', {}).get('rc')} / {m.get('demo_with_patch', {}).get('rc')}, " + \
               (m.get("suite_with_patch", {}).get("tail", "").strip().splitlines()[-1][:28] if m.get("suite_with_patch") else "?")
        keys = [r["keys"][0][4:90] for p, r in m.get("checks", {}).items() if r["rc"] == 1 and r["keys"]]
        caught = ', '.join(m.get('caught_by', [])) or ('no longer a break on the repaired tree (see note in meta.json)' if m.get('note') and not m.get('confirmed') else 'MISSED')
        rows.append(f"| `seeded/{name}` | {m.get('summary', '')} | {conf} | {caught} | {keys[0] if keys else ''} |")
    print("\n".join(rows))


if __name__ == "__main__":
    if sys.argv[1] == "table":
        table()
    elif sys.argv[1] == "ingest":
        extra = []
        name = None
        args = sys.argv[4:]
        while args:
            a = args.pop(0)
            if a == "--name":
                name = args.pop(0)
            else:
                extra.append(a)
        ingest(sys.argv[2], sys.argv[3], name, extra)
    else:
        rerun(sys.argv[2:])
