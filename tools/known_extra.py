# executed by tools/make_known.py (names F, fixed, known are in scope)
fixed(["C12"], "exception-escapes-router:*", "fix: a client write that cannot be applied",
      "unknown property/element, kind mismatch or unparsable value raised out of Driver.message_from_client: TCP connection closed, TTY server stopped")
fixed(["C12", "C11"], "later-valid-request-unanswered:*", "fix: framing buffer skips complete elements",
      "a complete element that is not a valid message stayed at the head of the buffer and blocked every later message until 2048 more characters arrived")
fixed(["C01", "C15", "C08"], "task-died:wait_for_messages (TypeError on empty BLOB payload)", "fix: client accepts an empty BLOB payload",
      "<oneBLOB size=0/> without text raised TypeError in the client's decoder and ended its receive loop")
fixed(["C01", "C07"], "defBLOB carries repr(BLOB)", "fix: defBLOB no longer carries the repr",
      "definitions of BLOB elements holding a value carried '<indi.device.values.BLOB object at 0x..>' as text; clients stored that string as the value")
fixed(["C06", "C08"], "client-submit-raises:BLOB:TypeError", "fix: client can upload a BLOB",
      "client BLOB.to_new_message built OneBLOB without size/format: submit() raised for every BLOB property")
fixed(["C06", "C08", "C12"], "upload rejected: size compared as str vs int", "fix: driver accepts BLOB uploads parsed from the wire",
      "driver asserted msg.size == len(payload) with msg.size a string for every message that came through a connection")
fixed(["C15"], "mirror-differs:device-set:after-whole-device-delProperty", "fix: client removes the device on a delProperty",
      "a delProperty without a name left the device and all its properties in the client's mirror")
fixed(["C16", "C17"], "callback-missed-event:after-another-callback-removed-itself", "fix: a callback that removes a callback",
      "BaseClient.trigger_event iterated the live callback list: a callback removing itself made the next one miss the event")
fixed(["C17"], "wait-returns-not-the-first-match:last-of-batch", "fix: waitforevent returns the first matching event",
      "of two matching events processed in one batch waitforevent returned the last one")
fixed(["C19"], "output-out-of-order:tty", "fix: TTY channel writes messages in the order",
      "TTY writes of messages routed back-to-back ran concurrently in the thread pool and reached stdout in completion order")
fixed(["C12", "C07"], "later-valid-request-unanswered:*:number-overflow-1e999|number-nan-as-text|number-inf-as-text", "fix: number elements reject inf and nan",
      "a client could store inf/nan in a number element (1e999, or 'nan' sent as text); every later definition/update of the vector then raised, closing the connection of whoever asked")
fixed(["C11", "C12"], "valid-message-not-recovered-after-junk (messages enclosed by an invalid element)", "fix: giving up an invalid element must not discard",
      "first version of the framer fix dropped a complete-but-invalid element whole, including valid messages it enclosed")
fixed(["C01"], "library-client:raced-across-control-and-blob-connection", "fix: client ignores non-BLOB messages that arrive on its BLOB",
      "until enableBLOB Only takes effect the BLOB connection also receives every non-BLOB message; a late copy overwrote newer state from the control connection (found by the quick seed sweep, VERIF_SEED=6)")
fixed(["C12"], "later-valid-request-unanswered:*:number-huge-finite-to-sexagesimal-format", "fix: rendering a huge number in a sexagesimal format",
      "a client could store 1e308 in a sexagesimal-format number; num_to_str then raised OverflowError on every definition/update of that vector")
fixed(["C20"], "unequal-compare-equal:child-kind-changed*", "fix: message equality takes the kind of each child",
      "two messages whose children differ only in kind (same name, attributes and value text) compared equal: to_dict() of a child does not hold its kind")
fixed(["C12"], "later-valid-request-unanswered:*:number-400-digit-integer-*", "fix: number elements reject integers beyond the float range",
      "a number sent as hundreds of digits without exponent was stored as an arbitrary-size int; every later rendering of the vector raised OverflowError (pointed out by a seeding sub-agent's report on the unmodified code, reproduced by C12 after the catalogue got 400-digit numbers)")
fixed(["C12"], "later-valid-request-unanswered:*:number-306-digit-integer-to-sexagesimal-format", "fix: sexagesimal rendering of integers whose scaled magnitude",
      "an int of 304-309 digits fits a float and is accepted, but int x unit count is an int beyond the float range: num_to_str raised OverflowError on every rendering in a sexagesimal format (pointed out in a seeding sub-agent's notes on the unmodified code; reproduced by C12, then repaired)")
fixed(["C09"], "published:more-than-one-on:*:hardware-selector-moved:*", "fix: a switch vector lets all Read handlers run before it renders",
      "switches refreshed by a Read handler (reset_value): when the selection had moved on the hardware, the next setSwitchVector / defSwitchVector showed the old and the new switch On, because elements are rendered one by one while the rule changes their siblings (pointed out in a seeding sub-agent's notes on the unmodified code; reproduced by C09's hardware-selector scenario, then repaired)")
fixed(["C08"], "blob-after-client-restart-lost", "fix: a client that is started again asks for the BLOBs",
      "Client.stop() followed by Client.start() on the same object: the devices are kept, none is seen for the first time, so the enableBLOB handshake was never repeated on the new connections and no BLOB reached the client any more (noticed while building the round-10 restart scenario of C01; reproduced by C08's restart phase, then repaired)")
known("C08", "payload-longer-than-threshold-on-threshold-enabled-link",
      "a BLOB message longer than the 2048-character junk threshold is discarded as junk by a framing buffer whose threshold is enabled "
      "(every client->driver upload on the server side; driver->client on a connection that asked for enableBLOB Also without for_blobs) "
      "as soon as it is still incomplete at a process() call with more than 2048 characters buffered; traffic behind it is unaffected. "
      "Needs a different junk-recovery design (the framer cannot tell 'long, still incomplete' from 'truncated, followed by valid messages').",
      {"replay": "./check C08 --replay seeded/known/C08-long-payload-threshold-link.json",
       "input": "upload of 1511 random bytes (2208 characters on the wire) in 1024-byte reads; or setBLOBVector of 1377 bytes to a threshold-enabled Also connection",
       "call_site": "indi/transport/buffer.py:Buffer.process -> _cleanup_beginning when data_len > max_buffer_size_before_frontal_cleanup"})
