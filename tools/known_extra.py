# executed by tools/make_known.py (names F, fixed, known are in scope)
fixed(["C12"], "exception-escapes-router:*", "fix: a client write that cannot be applied",
      "unknown property/element, kind mismatch or unparsable value raised out of Driver.message_from_client: TCP connection closed, TTY server stopped")
fixed(["C12", "C11"], "later-valid-request-unanswered:*", "fix: framing buffer skips complete elements",
      "a complete element that is not a valid message stayed at the head of the buffer and blocked every later message until 2048 more characters arrived")
fixed(["C01", "C15", "C08"], "task-died:wait_for_messages (TypeError on empty BLOB payload)", "fix: client accepts an empty BLOB payload",
      "<oneBLOB size=0/> without text raised TypeError in the client's decoder and ended its receive loop")
fixed(["C01", "C07"], "defBLOB carries repr(BLOB)", "fix: defBLOB no longer carries the repr",
      "definitions of BLOB elements holding a value carried '<indi.device.values.BLOB object at 0x..>' as text; clients stored that string as the value")
fixed(["C06", "C08"], "client-submit-raises:BLOB:TypeError", "fix: client can upload a BLOB",
      "client BLOB.to_new_message built OneBLOB without size/format: submit() raised for every BLOB property")
fixed(["C06", "C08", "C12"], "upload rejected: size compared as str vs int", "fix: driver accepts BLOB uploads parsed from the wire",
      "driver asserted msg.size == len(payload) with msg.size a string for every message that came through a connection")
fixed(["C15"], "mirror-differs:device-set:after-whole-device-delProperty", "fix: client removes the device on a delProperty",
      "a delProperty without a name left the device and all its properties in the client's mirror")
fixed(["C16", "C17"], "callback-missed-event:after-another-callback-removed-itself", "fix: a callback that removes a callback",
      "BaseClient.trigger_event iterated the live callback list: a callback removing itself made the next one miss the event")
fixed(["C17"], "wait-returns-not-the-first-match:last-of-batch", "fix: waitforevent returns the first matching event",
      "of two matching events processed in one batch waitforevent returned the last one")
fixed(["C19"], "output-out-of-order:tty", "fix: TTY channel writes messages in the order",
      "TTY writes of messages routed back-to-back ran concurrently in the thread pool and reached stdout in completion order")
fixed(["C12", "C07"], "later-valid-request-unanswered:*:number-overflow-1e999|number-nan-as-text|number-inf-as-text", "fix: number elements reject inf and nan",
      "a client could store inf/nan in a number element (1e999, or 'nan' sent as text); every later definition/update of the vector then raised, closing the connection of whoever asked")
fixed(["C11", "C12"], "valid-message-not-recovered-after-junk (messages enclosed by an invalid element)", "fix: giving up an invalid element must not discard",
      "first version of the framer fix dropped a complete-but-invalid element whole, including valid messages it enclosed")
fixed(["C01"], "library-client:raced-across-control-and-blob-connection", "fix: client ignores non-BLOB messages that arrive on its BLOB",
      "until enableBLOB Only takes effect the BLOB connection also receives every non-BLOB message; a late copy overwrote newer state from the control connection (found by the quick seed sweep, VERIF_SEED=6)")
fixed(["C12"], "later-valid-request-unanswered:*:number-huge-finite-to-sexagesimal-format", "fix: rendering a huge number in a sexagesimal format",
      "a client could store 1e308 in a sexagesimal-format number; num_to_str then raised OverflowError on every definition/update of that vector")
fixed(["C20"], "unequal-compare-equal:child-kind-changed*", "fix: message equality takes the kind of each child",
      "two messages whose children differ only in kind (same name, attributes and value text) compared equal: to_dict() of a child does not hold its kind")
fixed(["C12"], "later-valid-request-unanswered:*:number-400-digit-integer-*", "fix: number elements reject integers beyond the float range",
      "a number sent as hundreds of digits without exponent was stored as an arbitrary-size int; every later rendering of the vector raised OverflowError (pointed out by a seeding sub-agent's report on the unmodified code, reproduced by C12 after the catalogue got 400-digit numbers)")
fixed(["C12"], "later-valid-request-unanswered:*:number-306-digit-integer-to-sexagesimal-format", "fix: sexagesimal rendering of integers whose scaled magnitude",
      "an int of 304-309 digits fits a float and is accepted, but int x unit count is an int beyond the float range: num_to_str raised OverflowError on every rendering in a sexagesimal format (pointed out in a seeding sub-agent's notes on the unmodified code; reproduced by C12, then repaired)")
fixed(["C09"], "published:more-than-one-on:*:hardware-selector-moved:*", "fix: a switch vector lets all Read handlers run before it renders",
      "switches refreshed by a Read handler (reset_value): when the selection had moved on the hardware, the next setSwitchVector / defSwitchVector showed the old and the new switch On, because elements are rendered one by one while the rule changes their siblings (pointed out in a seeding sub-agent's notes on the unmodified code; reproduced by C09's hardware-selector scenario, then repaired)")
fixed(["C08"], "blob-after-client-restart-lost", "fix: a client that is started again asks for the BLOBs",
      "Client.stop() followed by Client.start() on the same object: the devices are kept, none is seen for the first time, so the enableBLOB handshake was never repeated on the new connections and no BLOB reached the client any more (noticed while building the round-10 restart scenario of C01; reproduced by C08's restart phase, then repaired)")
known("C08", "payload-longer-than-threshold-on-threshold-enabled-link",
      "a BLOB message longer than the 2048-character junk threshold is discarded as junk by a framing buffer whose threshold is enabled "
      "(every client->driver upload on the server side; driver->client on a connection that asked for enableBLOB Also without for_blobs) "
      "as soon as it is still incomplete at a process() call with more than 2048 characters buffered; traffic behind it is unaffected. "
      "Needs a different junk-recovery design (the framer cannot tell 'long, still incomplete' from 'truncated, followed by valid messages').",
      {"replay": "./check C08 --replay seeded/known/C08-long-payload-threshold-link.json",
       "input": "upload of 1511 random bytes (2208 characters on the wire) in 1024-byte reads; or setBLOBVector of 1377 bytes to a threshold-enabled Also connection",
       "call_site": "indi/transport/buffer.py:Buffer.process -> _cleanup_beginning when data_len > max_buffer_size_before_frontal_cleanup"})
known("C01", "in-process-client:stale-value:after-a-write-from-inside-a-definition-callback-of-an-earlier-registered-client",
      "Router.process_message delivers re-entrantly: an in-process client (a driver's snooping client) that reacts to a definition by writing a value "
      "from inside its callback makes the device publish the update while the definition is still being fanned out; every client registered with "
      "the router AFTER the reacting one is handed the update first and the older definition afterwards, and keeps the old value although the "
      "device holds the new one. Clients registered before the reacting one, and socket clients that react after their read returns, are not "
      "affected. A repair means queueing messages routed during a fan-out until it has finished - a change of the router's re-entrancy "
      "semantics (nested sends are synchronous today, and the driver's answers to getProperties rely on it) that is not a small patch.",
      {"replay": "./check C01 --replay seeded/known/C01-reentrant-update-overtakes-definition.json",
       "history": "three snooping clients follow CAM; the first-registered one has a DefinitionUpdate callback that assigns TXT.E0 = 'new' and submits; "
                  "a later-registered one sends getProperties device=CAM; it receives setTextVector(new) and then defTextVector(old)",
       "call_site": "indi/routing/router.py:Router.process_message (nested call from Driver.send_message inside client.message_from_device)"})
