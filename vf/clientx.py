"""Server-stream generator and lock-step runner for the client package
(shared by C15 and C16; DESIGN §3 C15/C16)."""
from __future__ import annotations

import asyncio
import base64

from vf import bufmon, fullstack, stack
from vf.gen import messages as G
from vf.instr import LoopMonitor, Patch
from vf.ref.client import RefClient
from vf.ref.view import view_abstract

DEVICES = ["D1", "D2"]
PROPS = ["P1", "P2", "P3"]
ELEMS = ["E1", "E2", "E3"]
KINDS = ["Text", "Number", "Switch", "Light", "BLOB"]


def gen_value(rng, kind, for_def):
    if kind == "Text":
        return rng.choice([None, "", "a", "hello world", "x<y&z", "é☃", "line1\nline2"]) if rng.random() < 0.7 else G.gen_string(rng)
    if kind == "Number":
        return rng.choice(["0", "1", "1.5", "-12:15:45", "42", "1e3", "0.000", "7"])
    if kind == "Switch":
        return rng.choice(G.SWITCH)
    if kind == "Light":
        return rng.choice(G.STATES)
    return None


def gen_part(rng, kind, name, for_def):
    if for_def:
        attrs = {"name": name}
        if rng.random() < 0.5:
            attrs["label"] = rng.choice(["L", "label " + name, "é"])
        if kind == "Number":
            attrs.update(format=rng.choice(["%f", "%.3m"]), min="0", max="100", step="1")
        text = None if kind == "BLOB" else gen_value(rng, kind, True)
        if kind in ("Switch", "Light", "Number") and text is None:
            text = {"Switch": "Off", "Light": "Idle", "Number": "0"}[kind]
        return {"tag": "def" + kind, "attrs": attrs, "text": text}
    attrs = {"name": name}
    if kind == "BLOB":
        r = rng.random()
        data = b"" if r < 0.3 else bytes(rng.randrange(256) for _ in range(rng.choice([1, 3, 10, 40, 90])))
        attrs["size"] = str(len(data))
        attrs["format"] = rng.choice(["", ".bin", ".fits"])
        text = base64.b64encode(data).decode("ascii") if data else (None if rng.random() < 0.5 else "")
        if text and len(text) >= 8 and rng.random() < 0.4:
            # servers (libindi) wrap the base64 text into lines; white space inside the payload is not part of it
            width = rng.choice([4, 8, 72 if len(text) > 72 else 12])
            sep = rng.choice(["\n", "\n", " ", "\n  "])
            text = sep.join(text[i:i + width] for i in range(0, len(text), width))
    else:
        text = gen_value(rng, kind, False)
        if kind in ("Switch", "Light", "Number") and text is None:
            text = {"Switch": "On", "Light": "Ok", "Number": "1"}[kind]
    return {"tag": "one" + kind, "attrs": attrs, "text": text}


def gen_stream(rng, n):
    """List of abstract messages (a well-formed server stream)."""
    msgs = []
    defined = {}   # (dev, prop) -> kind
    for _ in range(n):
        r = rng.random()
        dev = rng.choice(DEVICES) if rng.random() < 0.93 else "DX"
        prop = rng.choice(PROPS) if rng.random() < 0.93 else "PX"
        if r < 0.30 or not defined:
            kind = rng.choice(KINDS)
            names = rng.sample(ELEMS, rng.randrange(0, 4))
            attrs = {"device": dev, "name": prop, "state": rng.choice(G.STATES)}
            if kind != "Light":
                attrs["perm"] = rng.choice(G.PERMS)
            if kind == "Switch":
                attrs["rule"] = rng.choice(G.RULES)
            for a in ("label", "group", "timestamp", "message"):
                if rng.random() < 0.4:
                    attrs[a] = rng.choice(["x", "Main Control", "2024-01-01T00:00:00", "é"])
            msgs.append({"tag": f"def{kind}Vector", "attrs": attrs, "text": None,
                         "children": [gen_part(rng, kind, nm, True) for nm in names]})
            defined[(dev, prop)] = kind
        elif r < 0.80:
            if rng.random() < 0.8 and defined:
                dev, prop = rng.choice(sorted(defined))
                kind = defined[(dev, prop)] if rng.random() < 0.85 else rng.choice(KINDS)
            else:
                kind = rng.choice(KINDS)
            names = rng.sample(ELEMS + ["EX"], rng.randrange(0, 4))
            attrs = {"device": dev, "name": prop, "state": rng.choice(G.STATES)}
            for a in ("timeout", "timestamp", "message"):
                if rng.random() < 0.3:
                    attrs[a] = rng.choice(["5", "2024-01-01T00:00:00", "note"])
            msgs.append({"tag": f"set{kind}Vector", "attrs": attrs, "text": None,
                         "children": [gen_part(rng, kind, nm, False) for nm in names]})
        elif r < 0.90:
            attrs = {"device": dev}
            if rng.random() < 0.7:
                attrs["name"] = prop
                defined.pop((dev, prop), None)
            else:
                for k in [k for k in defined if k[0] == dev]:
                    defined.pop(k)
            msgs.append({"tag": "delProperty", "attrs": attrs, "text": None, "children": None})
        elif r < 0.94:
            msgs.append({"tag": "message", "attrs": {"device": dev, "message": "hello"}, "text": None, "children": None})
        elif r < 0.97:
            msgs.append({"tag": "pingRequest", "attrs": {"uid": "7"}, "text": None, "children": None})
        else:
            msgs.append({"tag": "getProperties", "attrs": {"version": "1.7", "device": dev}, "text": None, "children": None})
    return msgs


def lib_event_key(ev):
    """Library event -> comparable tuple (same shape as RefClient events)."""
    name = type(ev).__name__
    dev = ev.device.name if ev.device is not None else None
    vec = ev.vector.name if ev.vector is not None else None
    if name == "ValueUpdate":
        return ("value", dev, vec, ev.element.name, fullstack.norm_blob(ev.old_value), fullstack.norm_blob(ev.new_value))
    if name == "StateUpdate":
        return ("state", dev, vec, ev.old_state, ev.new_state)
    if name == "DefinitionUpdate":
        return ("definition", dev, vec)
    return (name, dev, vec)


def ref_event_key(ev):
    if ev[0] == "value":
        return ("value", ev[1], ev[2], ev[3], fullstack.norm_blob(ev[4]), fullstack.norm_blob(ev[5]))
    return ev


def norm_text(v):
    return None if v in (None, "") else v


def meaningful(ev, blob_elements):
    """Drop value events that do not change anything under the normalisations
    ('' == absent text; for BLOBs None == empty payload and 'only if changed' is not demanded)."""
    if ev[0] == "value":
        old, new = ev[4], ev[5]
        if (ev[1], ev[2], ev[3]) in blob_elements or isinstance(old, tuple) or isinstance(new, tuple):
            return old != new
        return True
    return True


def views_equal(libview, refview):
    """Compare client_view shaped dicts ('' == None for text, BLOB normalised)."""
    diffs = []
    if set(libview) != set(refview):
        diffs.append(("device-set", f"devices {sorted(libview)} != {sorted(refview)}"))
    for d in set(libview) & set(refview):
        lp, rp = libview[d], refview[d]
        for n in set(lp) | set(rp):
            if n not in lp:
                diffs.append(("property-missing", f"{d}.{n} missing in the client"))
                continue
            if n not in rp:
                diffs.append(("property-extra", f"{d}.{n} should not exist"))
                continue
            a, b = lp[n], rp[n]
            for k in ("kind", "state", "label", "group"):
                if a[k] != b[k]:
                    diffs.append((f"property-{k}", f"{d}.{n}: {k} {a[k]!r} != {b[k]!r}"))
            if list(a["elements"]) != list(b["elements"]):
                diffs.append(("element-set", f"{d}.{n}: elements {list(a['elements'])} != {list(b['elements'])}"))
                continue
            for en in a["elements"]:
                (la, va), (lb, vb) = a["elements"][en], b["elements"][en]
                if la != lb:
                    diffs.append(("element-label", f"{d}.{n}.{en}: label {la!r} != {lb!r}"))
                va, vb = fullstack.norm_blob(va), fullstack.norm_blob(vb)
                if norm_text(va) != norm_text(vb):
                    diffs.append(("element-value", f"{d}.{n}.{en}: value {va!r} != {vb!r}"))
    return diffs


class RecordingClient:
    """BaseClient subclass (created at run time) recording what it would send."""

    def __new__(cls, base="base"):
        if base == "snoop":
            from indi.device.snoop import SnoopingClient

            class _S(SnoopingClient):
                def __init__(self):
                    super().__init__(None)
                    self.sent = []

                def send_message(self, msg):
                    self.sent.append(msg)
            return _S()
        from indi.client.client import BaseClient

        class _C(BaseClient):
            def __init__(self):
                super().__init__()
                self.sent = []

            def send_message(self, msg):
                self.sent.append(msg)
        return _C()
