"""C16 — client change events are complete and exact."""
from __future__ import annotations

import asyncio
from collections import Counter

from vf import clientx as X, fullstack, stack
from vf.gen import messages as G
from vf.ref.client import RefClient
from vf.ref.view import view_xml

LEVEL = "exploration"
RULE = ("server streams as in C15 (redefinition, partial updates, kind mismatches, unknown targets, empty BLOBs, whole-device deletion) "
        "fed message by message to a real BaseClient inside an event loop, with generated callback sets: every filter field (device / "
        "vector / element) absent, matching or non-matching, every event type incl. the base type, plain and coroutine callbacks, some "
        "raising, registered and removed (by id and by criteria) between messages AND from inside callbacks (remove itself, remove a "
        "later callback, register a new one). An always-registered spy callback yields the raised events, which must equal (as a "
        "multiset, per message) the events an independent reference interpreter derives from consecutive mirror snapshots; the "
        "dispatch is then simulated on the spy's observed order to obtain, per callback, the exact invocations required; value and "
        "state chains are checked for continuity and against the final view. In every third stream the application assigns pending (unsubmitted) values to known elements between messages. Every fourth stream ends with a callback that re-enters the "
        "client (has another message for the same property processed while an event is being dispatched), every fourth with a "
        "setBLOBVector that can only be applied in part (second element with a wrong size); for those tails only the chain oracle "
        "applies. A second scenario (400 / 20000 cases) uses two real drivers on a Router: the snooping client of one follows two or three properties of the other, each named in a snoop_device call of its own (sometimes the whole device too, sometimes other snoops in between); after every change on the device the client must hold the device's value, the callback registered for the device must have seen an event iff the value changed, old/new values chaining. non-trivial = a stream with >= 5 events and >= 3 "
        "callbacks that were invoked; distinct = hash(stream, callback configuration)")
ASSUMPTIONS = ["no order among the events of one message is demanded", "for BLOB values only 'changed => event' is demanded",
               "a callback registered while an event is being dispatched may or may not receive that event"]
REQUIRED_EVENTS = ["snooping_clients_following_several_properties_of_one_device", "snooped_property_changes_judged", "streams", "events_raised", "callback_invocations_checked", "callbacks_removed_between_messages", "criteria_removals_matching_several",
                   "in_callback_self_removals", "in_callback_removals_of_later", "raising_callbacks_invoked", "coroutine_callbacks_invoked",
                   "chains_checked", "messages_processed_from_inside_a_callback", "partially_applicable_messages", "pending_values_assigned"]

QUICK_SHARDS = 4
ETYPES = ["BaseEvent", "ValueUpdate", "StateUpdate", "DefinitionUpdate"]


def gen_callbacks(rng, nmsgs):
    cbs = []
    n = rng.choice([2, 4, 6, 9])
    for i in range(n):
        cb = {
            "id": i,
            "device": rng.choice([None, None, "D1", "D2", "DX"]),
            "vector": rng.choice([None, None, "P1", "P2", "PX"]),
            "element": rng.choice([None, None, None, "E1", "E2", "EX"]),
            "etype": rng.choice(ETYPES),
            "async": rng.random() < 0.25,
            "shape": rng.choice(["function", "function", "partial", "object", "method"]),   # any callable may be registered
            "raises": rng.random() < 0.2,
            "register_at": rng.choice([0, 0, 0, rng.randrange(0, max(1, nmsgs))]),
            "remove_at": None,
            "remove_how": rng.choice(["uuid", "criteria", "criteria-all", "criteria-all"]),
            "action": None,
        }
        if rng.random() < 0.4:
            cb["remove_at"] = rng.randrange(cb["register_at"], nmsgs + 1)
        if not cb["async"] and rng.random() < 0.45:
            cb["action"] = rng.choice(["remove-self", "remove-later", "register-new", "remove-self"])
        cbs.append(cb)
    return cbs


def matches(cb, ev):
    """Filter semantics of the statement, on event tuples."""
    kind, dev, vec = ev[0], ev[1], ev[2]
    el = ev[3] if kind == "value" else None
    if cb["device"] is not None and cb["device"] != dev:
        return False
    if cb["vector"] is not None and cb["vector"] != vec:
        return False
    if cb["element"] is not None and cb["element"] != el:
        return False
    want = {"BaseEvent": None, "ValueUpdate": "value", "StateUpdate": "state", "DefinitionUpdate": "definition"}[cb["etype"]]
    return want is None or want == kind


async def run_stream(ctx, case):
    import indi.message as M
    from indi.client import events as E
    rng = ctx.rng("stream", case["i"])
    msgs = X.gen_stream(rng, case["n"])
    cbs = gen_callbacks(ctx.rng("cbs", case["i"]), len(msgs))
    prng = ctx.rng("pending", case["i"])
    from vf.instr import LoopMonitor
    LoopMonitor(asyncio.get_running_loop())      # collects "exception never retrieved" of raising coroutine callbacks
    client = X.RecordingClient("base")
    ref = RefClient()
    logs = {}             # cb id -> list of (message index, event key)
    spy = []              # (message index, event key)
    cur = [0]
    uuids = {}
    funcs = {}
    registered = []       # model: ordered list of cb ids currently registered
    acted = set()
    dyn = []              # callbacks registered from inside callbacks
    counters = Counter()

    def spy_cb(event):
        spy.append((cur[0], X.lib_event_key(event)))

    client.onevent(callback=spy_cb)

    def make(cb):
        def body(event):
            logs.setdefault(cb["id"], []).append((cur[0], X.lib_event_key(event)))
            if cb["action"] and cb["id"] not in acted:
                acted.add(cb["id"])
                do_action(cb)
            if cb["raises"]:
                raise RuntimeError(f"callback {cb['id']} raises")
        if cb["async"]:
            async def fn(event):
                body(event)
        else:
            shape = cb.get("shape", "function")
            if shape == "partial":
                import functools

                def target(tag, event):
                    body(event)
                fn = functools.partial(target, cb["id"])
            elif shape == "object":
                class Handler:
                    def __call__(self, event):
                        body(event)
                fn = Handler()
            elif shape == "method":
                class Owner:
                    def handle(self, event):
                        body(event)
                fn = Owner().handle
            else:
                def fn(event):
                    body(event)
        return fn

    def register(cb):
        fn = make(cb)
        funcs[cb["id"]] = fn
        if cb["etype"] == "BaseEvent" and cb["id"] % 2 == 0:
            # "any event" is the default: registered WITHOUT naming an event type, removed later by criteria that do name BaseEvent
            uuids[cb["id"]] = client.onevent(callback=fn, device=cb["device"], vector=cb["vector"], element=cb["element"])
            counters["registered_without_event_type"] += 1
        else:
            uuids[cb["id"]] = client.onevent(callback=fn, device=cb["device"], vector=cb["vector"], element=cb["element"],
                                             event_type=getattr(E, cb["etype"]))

    def remove(cb, how):
        if how == "uuid":
            client.rmonevent(uuid=uuids[cb["id"]])
        elif how == "criteria-all" and cb["etype"] != "BaseEvent":
            # by filter only: removes EVERY callback registered with these filter values (None is a wild card);
            # the event type is always given and never the base type, so the spy cannot match
            client.rmonevent(device=cb["device"], vector=cb["vector"], element=cb["element"], event_type=getattr(E, cb["etype"]))
        else:
            client.rmonevent(device=cb["device"], vector=cb["vector"], element=cb["element"], event_type=getattr(E, cb["etype"]),
                             callback=funcs[cb["id"]])

    def do_action(cb):
        if cb["action"] == "remove-self":
            remove(cb, "uuid")
        elif cb["action"] == "remove-later":
            ids = live_ids()
            if cb["id"] in ids and ids.index(cb["id"]) + 1 < len(ids):
                nxt = ids[ids.index(cb["id"]) + 1]
                client.rmonevent(uuid=uuids[nxt])
        elif cb["action"] == "register-new":
            new = dict(cb, id=1000 + cb["id"], action=None, raises=False, shape="function", **{"async": False})
            dyn.append(new)
            register(new)

    def live_ids():
        # ids in the client's actual registration order (uuid -> id), spy excluded
        inv = {u: i for i, u in uuids.items()}
        return [inv[c.uuid] for c in client.callbacks if c.uuid in inv]

    ctx.count("streams")
    bycb = {c["id"]: c for c in cbs}
    model_reg = []        # ordered ids registered according to the model
    model_acted = set()
    total_events = 0
    invoked = set()
    blob_elements = set()
    for k, am in enumerate(msgs):
        cur[0] = k
        # registrations / removals scheduled before this message
        for cb in cbs:
            if cb["register_at"] == k:
                register(cb)
                model_reg.append(cb["id"])
        for cb in cbs:
            if cb["remove_at"] == k and cb["id"] in uuids:
                remove(cb, cb["remove_how"])
                ctx.count("callbacks_removed_between_messages")
                if cb["remove_how"] == "criteria-all" and cb["etype"] != "BaseEvent":
                    victims = [cid for cid in model_reg
                               if all(cb[f] is None or cb[f] == bycb[cid][f] for f in ("device", "vector", "element"))
                               and bycb[cid]["etype"] == cb["etype"]]
                    if len(victims) > 1:
                        ctx.count("criteria_removals_matching_several")
                    for cid in victims:
                        model_reg.remove(cid)
                elif cb["id"] in model_reg:
                    model_reg.remove(cb["id"])
        if case["i"] % 3 == 2 and prng.random() < 0.5:
            # the application assigns a value it has not submitted (yet): a PENDING value, which is none of the server's business
            # and must not show in, suppress or add any event of the messages that follow
            cv = stack.client_view(client)
            cands = [(d, p, en, x["kind"]) for d, props in cv.items() for p, x in props.items() if x["kind"] in ("Text", "Number", "Switch")
                     for en in x["elements"]]
            if cands:
                d_, p_, en_, kind_ = prng.choice(sorted(cands))
                try:
                    el_ = client.get_device(d_).get_vector(p_).get_element(en_)
                    el_.value = {"Text": prng.choice(["pending", "GO", ""]), "Number": prng.choice([0, 1, 2.5, 100]),
                                 "Switch": prng.choice(["On", "Off"])}[kind_]
                    ctx.count("pending_values_assigned")
                    if prng.random() < 0.5:
                        # ... and submits it: the write goes out, the mirror only changes when the server reports something
                        client.get_device(d_).get_vector(p_).submit()
                        ctx.count("pending_values_submitted")
                except Exception as e:
                    ctx.violate(f"assigning-a-pending-value-raises:{kind_}:{type(e).__name__}", f"{d_}.{p_}.{en_}: {e!r}", dict(case, message_index=k))
                    return total_events, len(invoked)
        text = G.write_xml(am, G.spellings(rng, 1)[0])
        view = view_xml(text)
        if am["tag"] == "defBLOBVector":
            for c in am["children"]:
                blob_elements.add((am["attrs"]["device"], am["attrs"]["name"], c["attrs"]["name"]))
        ref_events = [X.ref_event_key(e) for e in ref.apply(view)]
        mark_spy = len(spy)
        marks = {i: len(v) for i, v in logs.items()}
        mcase = dict(case, message_index=k)
        detail = {"message": text}
        try:
            client.process_message(M.IndiMessage.from_string(text))
        except Exception as e:
            ctx.violate(f"process_message-raises:{am['tag']}:{type(e).__name__}", f"{e!r}", mcase, detail)
            return 0, 0
        for _ in range(3):
            await asyncio.sleep(0)
        raised = [e for (_, e) in spy[mark_spy:]]
        ctx.count("events_raised", len(raised))
        total_events += len(raised)
        a = Counter(e for e in raised if X.meaningful(e, blob_elements))
        b = Counter(e for e in ref_events if X.meaningful(e, blob_elements))
        if a != b:
            missing = list((b - a).elements())
            extra = list((a - b).elements())
            what = ("event-missing:" + missing[0][0]) if missing else ("event-extra:" + extra[0][0])
            ctx.violate(what, f"message {k} ({am['tag']}): raised events differ from the reference: missing {missing[:3]}, extra {extra[:3]}",
                        mcase, dict(detail, raised=raised[:10], reference=ref_events[:10]))
            return total_events, len(invoked)
        # simulate the dispatch on the observed order
        expect = {}          # cb id -> Counter of events
        optional = {}        # cb id -> Counter (registered during this dispatch)
        for ev in raised:
            snapshot = list(model_reg)
            for cid in snapshot:
                if cid not in model_reg:
                    continue                      # removed meanwhile: must not be invoked
                cb = bycb.get(cid) or next(d for d in dyn if d["id"] == cid)
                if not matches(cb, ev):
                    continue
                expect.setdefault(cid, Counter())[ev] += 1
                if cb["action"] and cid not in model_acted:
                    model_acted.add(cid)
                    if cb["action"] == "remove-self":
                        model_reg.remove(cid)
                        ctx.count("in_callback_self_removals")
                    elif cb["action"] == "remove-later":
                        idx = model_reg.index(cid)
                        if idx + 1 < len(model_reg):
                            del model_reg[idx + 1]
                            ctx.count("in_callback_removals_of_later")
                    elif cb["action"] == "register-new":
                        nid = 1000 + cid
                        bycb[nid] = dict(cb, id=nid, action=None, raises=False, **{"async": False})
                        model_reg.append(nid)
                        if matches(bycb[nid], ev):
                            optional.setdefault(nid, Counter())[ev] += 1
        for cid in set(list(expect) + [i for i in logs] + list(optional)):
            got = Counter(e for (mi, e) in logs.get(cid, [])[marks.get(cid, 0):])
            want = expect.get(cid, Counter())
            opt = optional.get(cid, Counter())
            ctx.count("callback_invocations_checked", sum(got.values()))
            if got:
                invoked.add(cid)
                cbd = bycb.get(cid)
                if cbd and cbd.get("raises"):
                    ctx.count("raising_callbacks_invoked")
                if cbd and cbd.get("async"):
                    ctx.count("coroutine_callbacks_invoked")
            lack = want - got
            surplus = got - want - opt
            if lack or surplus:
                cbd = bycb.get(cid, {})
                if lack:
                    ev0 = list(lack.elements())[0]
                    prev_self_removed = any(bycb[c].get("action") == "remove-self" for c in bycb if c in model_acted)
                    what = "callback-missed-event" + (":after-another-callback-removed-itself" if prev_self_removed else "")
                else:
                    ev0 = list(surplus.elements())[0]
                    what = "callback-got-unmatched-event" if not matches(cbd, ev0) else "callback-invoked-after-removal-or-twice"
                ctx.violate(what, f"message {k}: callback {cid} (filter dev={cbd.get('device')} vec={cbd.get('vector')} el={cbd.get('element')} "
                                  f"type={cbd.get('etype')}) lacks {list(lack.elements())[:2]}, surplus {list(surplus.elements())[:2]}",
                            mcase, dict(detail, callbacks=cbs, registered=list(model_reg)))
                return total_events, len(invoked)
        if sorted(live_ids()) != sorted(i for i in model_reg if i in uuids):
            ctx.violate("registered-callbacks-differ", f"message {k}: client has {sorted(live_ids())}, expected {sorted(model_reg)}", mcase, detail)
            return total_events, len(invoked)
    # ---- two hostile tails; from here on only the chain oracle below applies (the reference interpreter is not consulted)
    from indi.message import def_parts, one_parts
    cur[0] = len(msgs)
    if case["i"] % 4 == 1:
        # (a) a callback that RE-ENTERS the client: while one event of a message is being dispatched it has another message for the
        #     same property processed (what a synchronous answer to vector.submit() does on a loop-back / snooping transport)
        client.process_message(M.DefTextVector(device="DR", name="PR", state="Idle", perm="rw",
                                               children=(def_parts.DefText(name="R1", value="a"), def_parts.DefText(name="R2", value="b"))))
        fired = []

        def reenter(event):
            if not fired:
                fired.append(1)
                client.process_message(M.SetTextVector(device="DR", name="PR", state="Alert",
                                                       children=(one_parts.OneText(name="R1", value="n1"), one_parts.OneText(name="R2", value="n2"))))
        client.onevent(callback=reenter, device="DR", vector="PR", event_type=rng.choice([E.StateUpdate, E.ValueUpdate, E.BaseEvent]))
        try:
            client.process_message(M.SetTextVector(device="DR", name="PR", state="Busy",
                                                   children=(one_parts.OneText(name="R1", value="o1"), one_parts.OneText(name="R2", value="o2"))))
        except Exception as e:
            ctx.violate(f"process_message-raises:reentrant-callback:{type(e).__name__}", f"{e!r}", case)
            return total_events, len(invoked)
        if fired:
            ctx.count("messages_processed_from_inside_a_callback")
    if case["i"] % 4 == 3:
        # (b) a message that can only be applied in part: the second BLOB of the vector declares a size its payload does not have
        import base64
        client.process_message(M.DefBLOBVector(device="DB", name="PB", state="Idle", perm="ro",
                                               children=(def_parts.DefBLOB(name="B1"), def_parts.DefBLOB(name="B2"))))
        good = base64.b64encode(b"first").decode()
        try:
            client.process_message(M.SetBLOBVector(device="DB", name="PB", state="Alert", children=(
                one_parts.OneBLOB(name="B1", size=5, format=".a", value=good),
                one_parts.OneBLOB(name="B2", size=999, format=".b", value=good))))
        except Exception:
            ctx.count("partially_applied_messages_that_raised")
        ctx.count("partially_applicable_messages")
    for _ in range(3):
        await asyncio.sleep(0)
    # chains
    chains_v, chains_s = {}, {}
    for (mi, e) in spy:
        if e[0] == "value":
            key = (e[1], e[2], e[3])
            if e[4] is not None and key in chains_v and chains_v[key] != e[4]:
                ctx.violate("value-chain-broken", f"{key}: event old value {e[4]!r} but previous new value was {chains_v[key]!r}", case)
                return total_events, len(invoked)
            chains_v[key] = e[5]
        elif e[0] == "state":
            key = (e[1], e[2])
            if e[3] is not None and key in chains_s and chains_s[key] != e[3]:
                ctx.violate("state-chain-broken", f"{key}: event old state {e[3]!r} but previous new state was {chains_s[key]!r}", case)
                return total_events, len(invoked)
            chains_s[key] = e[4]
    final = stack.client_view(client)
    for d, props in final.items():
        for p, x in props.items():
            ctx.count("chains_checked")
            if chains_s.get((d, p)) != x["state"]:
                ctx.violate("last-state-event-is-not-current-state", f"{d}.{p}: last event said {chains_s.get((d, p))!r}, view shows {x['state']!r}", case)
                return total_events, len(invoked)
            for en, (lab, val) in x["elements"].items():
                if X.norm_text(fullstack.norm_blob(chains_v.get((d, p, en)))) != X.norm_text(fullstack.norm_blob(val)):
                    ctx.violate("last-value-event-is-not-current-value", f"{d}.{p}.{en}: last event said {chains_v.get((d, p, en))!r}, view shows {val!r}", case)
                    return total_events, len(invoked)
    return total_events, len(invoked)


def _snoop_spec(name):
    def el(attr, nm, **kw):
        return dict({"attr": attr, "name": nm, "label": None, "default": None, "enabled": True}, **kw)

    def vec(attr, kind, nm, elements, **kw):
        return dict({"attr": attr, "kind": kind, "name": nm, "label": None, "state": None, "perm": None, "timeout": None, "enabled": True,
                     "elements": elements}, **kw)
    vectors = [vec("t", "Text", "TXT", [el("e0", "T0"), el("e1", "T1")]),
               vec("n", "Number", "NUM", [el("e0", "N0", format="%.3f", min=None, max=None, step=0)]),
               vec("s", "Switch", "SW", [el("e0", "S0"), el("e1", "S1")], rule="OneOfMany", default_on="S0"),
               vec("u", "Text", "UNFOLLOWED", [el("e0", "U0")])]
    return {"name": name, "levels": [{"groups": [{"attr": "g", "name": "G", "enabled": True, "vectors": vectors}]}]}


def snooping_case(ctx, i):
    """An in-process client (a driver snooping another one) that follows SEVERAL properties of one device, each named in a
    getProperties of its own, in any order - what Driver.snoop_device(device, name) is for.  Every change of every property it
    has been given a definition of raises its events in an unbroken chain, and the value it holds is the device's."""
    from indi.client import events as CE
    from indi.routing import Router
    from vf.gen import drivers as D
    rng = ctx.rng("snooping", i)
    case = {"mode": "snooping", "i": i}
    router = Router()
    cam = D.build(_snoop_spec("CAM"))(router=router)
    guide = D.build(_snoop_spec("GUIDE"))(router=router)
    order = rng.sample(["TXT", "NUM", "SW"], rng.choice([2, 3, 3]))
    if rng.random() < 0.25:
        order.insert(rng.randrange(len(order) + 1), None)          # the whole device, before / between / after the named ones
    log = []
    client = guide.snooping_client
    early = rng.random() < 0.5
    if early:
        client.onevent(callback=log.append, device="CAM")
    for k, nm in enumerate(order):
        guide.snoop_device("CAM", nm)
        if rng.random() < 0.3:
            guide.snoop_device("GUIDE" if rng.random() < 0.5 else "NOBODY", rng.choice([None, "TXT"]))      # and something else in between
    if not early:
        client.onevent(callback=log.append, device="CAM")
    ctx.count("snooping_clients_following_several_properties_of_one_device")
    attr = {"TXT": "t", "NUM": "n", "SW": "s", "UNFOLLOWED": "u"}
    known = lambda: {v for v in stack.client_view(client).get("CAM", {})}
    chain = {}       # (vector, element) -> last value seen in an event

    def device_values(vn):
        vec = D.vector_of(cam, "g", attr[vn])
        return {e.name: e.value for e in vec._elements.values()}

    def same(vn, a, b):
        if vn == "NUM":
            try:
                return abs(float(a) - float(b)) < 1e-6
            except (TypeError, ValueError):
                return False
        return a == b

    for step in range(rng.choice([6, 12, 20])):
        vn = rng.choice(["TXT", "NUM", "SW", "UNFOLLOWED"])
        before = device_values(vn)
        vec = D.vector_of(cam, "g", attr[vn])
        del log[:]
        try:
            if vn in ("TXT", "UNFOLLOWED"):
                D.element_in(vec, rng.choice(["e0", "e1"]) if vn == "TXT" else "e0").value = f"text {i}.{step}.{rng.randrange(3)}"
            elif vn == "NUM":
                D.element_in(vec, "e0").value = round(rng.uniform(-90, 90), 3)
            else:
                D.element_in(vec, rng.choice(["e0", "e1"])).value = "On"
            if rng.random() < 0.3:
                vec.state_ = rng.choice(["Ok", "Busy", "Alert", "Idle"])
        except Exception as e:
            ctx.violate(f"snooping:driver-operation-raises:{type(e).__name__}", f"changing {vn} raised {e!r} with a snooping client attached", case, {"order": order})
            return
        after = device_values(vn)
        if vn not in known():
            continue
        ctx.count("snooped_property_changes_judged")
        held = {n_: v_[1] for n_, v_ in stack.client_view(client)["CAM"][vn]["elements"].items()}
        for en, dv in after.items():
            if not same(vn, held.get(en), dv):
                ctx.violate(f"snooping:client-holds-stale-value:{vn}",
                            f"CAM.{vn}.{en} is {dv!r} on the device, the snooping client (followed, in this order: {order}) holds {held.get(en)!r}", case, {"order": order})
                return
            evs = [e for e in log if isinstance(e, CE.ValueUpdate) and e.vector.name == vn and e.element.name == en]
            changed = not same(vn, before[en], dv)
            if changed != bool(evs):
                ctx.violate(f"snooping:{'no-event-for-a-change' if changed else 'event-without-a-change'}:{vn}",
                            f"CAM.{vn}.{en} went {before[en]!r} -> {dv!r} on the device; the callback registered for device CAM saw {len(evs)} value events "
                            f"(followed, in this order: {order})", case, {"order": order})
                return
            for e in evs:
                if (vn, en) in chain and not same(vn, chain[(vn, en)], e.old_value):
                    ctx.violate(f"snooping:event-chain-broken:{vn}", f"CAM.{vn}.{en}: event old value {e.old_value!r}, previous event's new value {chain[(vn, en)]!r}", case, {"order": order})
                    return
                chain[(vn, en)] = e.new_value
            if evs and not same(vn, evs[-1].new_value, dv):
                ctx.violate(f"snooping:last-event-is-not-the-current-value:{vn}", f"CAM.{vn}.{en}: last event says {evs[-1].new_value!r}, the device has {dv!r}", case, {"order": order})
                return
    ctx.case(("snooping", i), nontrivial=True)


def one_case(ctx, case):
    if case.get("mode") == "snooping":
        snooping_case(ctx, case["i"])
        return
    ev, inv = asyncio.run(run_stream(ctx, case))
    ctx.case((case["i"], case["n"]), nontrivial=ev >= 5 and inv >= 3, sample={"messages": case["n"], "events": ev, "callbacks_invoked": inv})


def run(ctx):
    n = 6000 if not ctx.thorough else 150000
    for i in range(n):
        if not ctx.mine(i):
            continue
        rng = ctx.rng("plan", i)
        one_case(ctx, {"i": i, "n": rng.choice([5, 10, 20, 40])})
        if ctx.enough():
            break
    for i in range(400 if not ctx.thorough else 20000):
        if ctx.mine(i):
            snooping_case(ctx, i)


def replay(ctx, case):
    one_case(ctx, case)
