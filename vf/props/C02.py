"""C02 — stream framing is lossless, ordered and independent of fragmentation."""
from __future__ import annotations

from vf import bufmon
from vf.gen import messages as G
from vf.gen import partitions as P
from vf.ref.view import view_abstract, view_lib

LEVEL = "exploration"
RULE = ("streams of 1..4 valid messages (whole grammar, library spelling and foreign spellings: declaration, indentation, quote "
        "style, empty-element form, character references, raw '>' in text) fed to a real Buffer piecewise; per stream and per "
        "threshold in {longest element, 2048, disabled}: ALL 1-cut partitions, character-by-character, structure-aimed 2-cuts, "
        "random k-cuts (quick); ALL 2-cut partitions of streams <= 150 chars and ALL 3-cut partitions of streams <= 100 chars "
        "(thorough). After every piece the delivered list must equal exactly the messages whose last character has arrived "
        "(decides loss, order, duplication, content and promptness at once); Buffer.process runs under a logical step budget. "
        "The same oracle through the real transports: 2..3 TCP server (or client, control/BLOB mode; or one TTY plus TCP server) connection handlers of one process, "
        "each fed its own stream in random pieces, the pieces interleaved round-robin / randomly / sequentially; deliveries are "
        "recorded per connection at the router call / callback. non-trivial = the partition cuts inside a message; distinct = hash(stream, threshold, cut positions)")
ASSUMPTIONS = ["only elements no longer than the threshold are generated when a threshold is set",
               "comments / CDATA / DOCTYPE are outside the quantifier"]
REQUIRED_EVENTS = ["process_calls", "deliveries", "cuts_inside_message", "threshold_disabled_runs", "transport_runs", "transport_pieces_fed"]
QUICK_SHARDS = 4
EXHAUSTIVE_NOTE = "1-cut partitions of every stream are complete in both tiers; 2-/3-cut partitions of the short corpus are complete in the thorough tier"


def build_stream(ctx, i, short=False, big=False):
    rng = ctx.rng("stream", i)
    n = rng.choice([1, 2]) if short else rng.choice([1, 2, 3, 4])
    parts = []
    ams = []
    ends = []
    pos = 0
    for k in range(n):
        if short:
            tag = rng.choice(["getProperties", "enableBLOB", "pingRequest", "newSwitchVector", "setLightVector", "delProperty", "message"])
            am = G.gen_message(rng, tag=tag, opt_subset=[], nchildren=rng.choice([0, 1]))
            for a in list(am["attrs"]):
                if a not in G.GRAMMAR[tag]["vocab"]:
                    am["attrs"][a] = rng.choice(["A", "x>", "é", "&"])
            for c in am.get("children") or []:
                c["attrs"]["name"] = rng.choice(["a", "b"])
        else:
            am = G.gen_message(rng)
        if big and k == 0:
            text, nb = G.gen_b64(rng, rng.choice([1500, 3000, 6000]))
            am = {"tag": "setBLOBVector", "attrs": {"device": "CAM", "name": "IMG", "state": "Ok"}, "text": None,
                  "children": [{"tag": "oneBLOB", "attrs": {"name": "img", "size": nb, "format": ".bin"}, "text": text}]}
        mode = rng.random()
        adjacent = rng.random() < 0.4      # no white space / declaration between this message and its neighbours
        if mode < 0.3 and not adjacent:
            text = G.lib_message(am).to_string().decode("latin1")
            tail = 1
        else:
            sp = G.spellings(rng, 1)[0]
            if short:
                sp["decl"] = rng.choice([0, 0, 1])
                sp["indent"] = 0
            if adjacent:
                sp["decl"] = 0
                sp["tail"] = ""
            text = G.write_xml(am, sp)
            tail = len(sp["tail"])
        parts.append(text)
        ams.append(am)
        pos += len(text)
        ends.append(pos - tail)
    stream = "".join(parts)
    return stream, ams, ends


def longest_element(stream, ends):
    # element start = first '<' that is not '<?' after the previous end
    longest = 0
    prev = 0
    for e in ends:
        seg = stream[prev:e]
        s = 0
        while True:
            s = seg.find("<", s)
            if s < 0 or not seg.startswith("<?", s):
                break
            s += 2
        longest = max(longest, len(seg) - max(s, 0))
        prev = e
    return longest


def classify(expected, got):
    if len(got) < len(expected):
        it = iter(expected)
        if all(any(g == e for e in it) for g in got):
            return "message-lost"
        return "message-lost-and-changed"
    if len(got) > len(expected):
        return "duplicate-or-spurious-delivery"
    if sorted(map(repr, got)) == sorted(map(repr, expected)):
        return "reordered"
    return "content-changed"


def check_partition(ctx, stream, ams, ends, thr, thr_mode, cuts, case):
    pieces = P.cut(stream, cuts)
    res = bufmon.feed(pieces, thr)
    ctx.count("process_calls", len(res.after))
    ctx.count("deliveries", len(res.delivered))
    if thr is None:
        ctx.count("threshold_disabled_runs")
    inside = any(c not in ends and not any(e <= c <= e + 3 for e in ends) for c in cuts)
    if inside:
        ctx.count("cuts_inside_message")
    want = [view_abstract(a) for a in ams]
    tmode = "threshold-disabled" if thr is None else "threshold-enabled"
    if res.error:
        j, kind, text = res.error
        got_none = any(m is None for _, m in res.delivered)
        key = f"process-{kind}:{tmode}" + (":callback-given-None" if got_none else "")
        ctx.violate(key, f"Buffer.process {kind}s on piece {j}: {text}", case,
                    {"stream": stream, "pieces": pieces[:j + 1], "threshold": thr})
        return inside
    got = []
    for j, m in res.delivered:
        try:
            got.append(view_lib(m))
        except Exception:
            ctx.violate(f"callback-given-non-message:{tmode}", f"callback received {m!r}", case, {"stream": stream, "pieces": pieces})
            return inside
    # promptness / exactness after every piece
    fed = 0
    for j, st in enumerate(res.after):
        fed = st["fed"]
        due = sum(1 for e in ends if e <= fed)
        if st["delivered"] < due:
            ctx.violate(f"late-or-lost-delivery:{tmode}",
                        f"after piece {j} ({fed} chars fed) {due} messages are complete but {st['delivered']} were delivered",
                        case, {"stream": stream, "pieces": pieces, "threshold": thr, "retained": st["data"]})
            return inside
        if st["delivered"] > due:
            ctx.violate(f"early-or-spurious-delivery:{tmode}",
                        f"after piece {j} ({fed} chars fed) only {due} messages are complete but {st['delivered']} were delivered",
                        case, {"stream": stream, "pieces": pieces, "threshold": thr})
            return inside
        if not st["suffix_ok"]:
            ctx.violate("retained-text-not-a-suffix", "buffer holds text that is not a suffix of the input", case,
                        {"stream": stream, "pieces": pieces})
            return inside
    if got != want:
        ctx.violate(f"{classify(want, got)}:{tmode}", "delivered sequence differs from the sent sequence", case,
                    {"stream": stream, "pieces": pieces, "threshold": thr, "got": got, "want": want})
    return inside


def transport_case(ctx, i):
    """The same oracle through the real transports: 2..3 connections of one process, each fed its own stream, the pieces of
    the streams interleaved.  What a connection delivers must be exactly its own messages, each as soon as its last
    character arrived on THAT connection."""
    from vf import transportx as T
    rng = ctx.rng("transport", i)
    kind = ["server-tcp", "client-tcp", "server-tcp", "client-tcp", "server-tty+tcp"][i % 5]
    nconn = rng.choice([2, 2, 3])
    for_blobs = [kind == "client-tcp" and rng.random() < 0.5 for _ in range(nconn)]
    conns = []
    for k in range(nconn):
        for attempt in range(20):
            stream, ams, ends = build_stream(ctx, 50000 + i * 100 + k * 20 + attempt, short=rng.random() < 0.5)
            # on the wire: Latin-1 bytes, anything beyond as character references (what the library's own serialiser does)
            enc = lambda t: t.encode("latin1", "xmlcharrefreplace").decode("latin1")
            ends = [len(enc(stream[:e])) for e in ends]
            stream = enc(stream)
            if for_blobs[k] or longest_element(stream, ends) <= 2000:
                break
        cuts = P.random_cuts(rng, len(stream), rng.choice([1, 2, 3, 6]))
        if rng.random() < 0.6:
            # cuts aimed at the structure: inside and right around tags, terminators, quotes
            sp = [c for c in P.structural_positions(stream) if 0 < c < len(stream)]
            if sp:
                cuts = sorted(set(rng.sample(sp, min(len(sp), rng.choice([1, 2, 4])))) | set(cuts[:1]))
        if rng.random() < 0.35:
            # pieces that consist of white space only: a blank inside a tag, a line break between attributes or children
            ws = [q for q, ch in enumerate(stream) if ch in " \t\r\n" and 0 < q < len(stream) - 1]
            if ws:
                for q in rng.sample(ws, min(len(ws), rng.choice([1, 2, 3]))):
                    cuts = sorted(set(cuts) | {q, q + 1})
        conns.append((stream, ams, ends, P.cut(stream, cuts)))
    how = ["round-robin", "random", "random", "sequential"][(i // 2) % 4]
    schedule = T.interleavings(rng, [len(c[3]) for c in conns], how)
    case = {"mode": "transport", "i": i}
    kinds = kind if kind != "server-tty+tcp" else ["server-tty"] + ["server-tcp"] * (nconn - 1)
    res, stats = T.run(kinds, [c[3] for c in conns], schedule, for_blobs=for_blobs)
    ctx.count("transport_runs")
    ctx.count("transport_connections", nconn)
    ctx.count("transport_pieces_fed", len(res.after))
    ctx.count("process_calls", stats["calls"])
    ctx.seen("transport_kinds", kind + ":" + how)
    detail = {"kind": kind, "schedule": schedule, "pieces": [c[3] for c in conns], "for_blobs": for_blobs}
    if res.errors:
        ci, what, text = res.errors[0]
        ctx.violate(f"transport:{what}:{kind}", f"connection {ci}: {what} {text}", case, detail)
        return True
    if res.foreign:
        ctx.violate(f"transport:delivery-attributed-to-nobody:{kind}", f"{res.foreign[0]}", case, detail)
        return True
    for step, ci, what, text in T.differential_problems(res):
        ctx.violate(f"transport:{what}:{kinds[ci] if isinstance(kinds, list) else kinds}" + (":blob-mode" if for_blobs[ci] else ""), text, case, detail)
        return True
    for step, (ci, fed, ndel) in enumerate(res.after):
        due = sum(1 for e in conns[ci][2] if e <= fed)
        if ndel != due:
            ctx.violate(f"transport:{'late-or-lost' if ndel < due else 'early-or-spurious'}-delivery:{kind}:{nconn}-connections-{how}",
                        f"after feed step {step} connection {ci} had received {fed} characters = {due} complete messages, but {ndel} were delivered to it",
                        case, detail)
            return True
    for ci, (stream, ams, ends, pieces) in enumerate(conns):
        want = [view_abstract(a) for a in ams]
        got = [v for _, v in res.delivered[ci]]
        ctx.count("deliveries", len(got))
        if got != want:
            ctx.violate(f"transport:{classify(want, got)}:{kind}", f"connection {ci} delivered a different sequence than it was sent", case,
                        dict(detail, got=got, want=want))
            return True
    return True


def thresholds(stream, ends):
    small = longest_element(stream, ends)
    out = [("small", small)]
    if small <= 2048:
        out.append(("default", 2048))
    out.append(("none", None))
    return out


def run_stream(ctx, i, short, big, plan):
    stream, ams, ends = build_stream(ctx, i, short=short, big=big)
    rng = ctx.rng("cuts", i)
    n = len(stream)
    for thr_mode, thr in thresholds(stream, ends):
        if big and thr_mode == "small":
            continue
        for kind, cuts in plan(rng, stream, n):
            if ctx.enough():
                return
            case = {"i": i, "short": short, "big": big, "thr": thr_mode, "cuts": list(cuts)}
            inside = check_partition(ctx, stream, ams, ends, thr, thr_mode, list(cuts), case)
            ctx.case_fast((i, short, big, thr_mode, tuple(cuts)), nontrivial=inside)
            ctx.seen("partition_kinds", kind)
    ctx.sample({"stream": stream if n < 400 else stream[:400] + "...", "message_end_offsets": ends})


def quick_plan(rng, stream, n):
    for c in range(1, n):
        yield "1cut", (c,)
    yield "char-by-char", tuple(range(1, n))
    sp = P.structural_positions(stream)
    for _ in range(40):
        if len(sp) >= 2:
            yield "structural-2cut", tuple(sorted(rng.sample(sp, 2)))
    for _ in range(40):
        yield "random-kcut", tuple(P.random_cuts(rng, n, rng.choice([2, 3, 5, 9, 17])))
    for size in (1024, 7, 64):
        yield "fixed-%d" % size, tuple(range(size, n, size))


def big_plan(rng, stream, n):
    yield "fixed-1024", tuple(range(1024, n, 1024))
    yield "fixed-1000", tuple(range(1000, n, 1000))
    for _ in range(6):
        yield "random-kcut", tuple(P.random_cuts(rng, n, rng.choice([1, 2, 3, 9])))
    sp = [p for p in P.structural_positions(stream)]
    for _ in range(6):
        yield "structural-2cut", tuple(sorted(rng.sample(sp, 2)))


def run(ctx):
    try:
        _run(ctx)
    finally:
        finish_notes(ctx)


def _run(ctx):
    if not ctx.thorough:
        for i in range(64):
            if ctx.mine(i):
                run_stream(ctx, i, short=False, big=False, plan=quick_plan)
        for i in range(100, 116):
            if ctx.mine(i):
                run_stream(ctx, i, short=False, big=True, plan=big_plan)
        # complete 2-cut enumeration of a few very short streams
        for i in range(200, 212):
            if ctx.mine(i):
                run_exhaustive(ctx, i, 2, maxlen=90)
        for i in range(600):
            if ctx.mine(i):
                ctx.case_fast(("transport", i), nontrivial=transport_case(ctx, i))
        return
    for i in range(400):
        if ctx.mine(i):
            run_stream(ctx, i, short=False, big=(i % 10 == 9), plan=quick_plan if i % 10 != 9 else big_plan)
    for i in range(20000):
        if ctx.mine(i):
            ctx.case_fast(("transport", i), nontrivial=transport_case(ctx, i))
    for i in range(1000, 1040):
        run_exhaustive(ctx, i, 2, maxlen=150, shard=True)
    for i in range(1000, 1040):
        run_exhaustive(ctx, i, 3, maxlen=100, shard=True)


def run_exhaustive(ctx, i, k, maxlen, shard=False):
    stream, ams, ends = build_stream(ctx, i, short=True)
    n = len(stream)
    if n > maxlen:
        ctx.count(f"skipped_too_long_for_{k}cuts")
        return
    ctx.count(f"streams_with_all_{k}cuts")
    for thr_mode, thr in thresholds(stream, ends):
        for pi, cuts in enumerate(P.all_k_cuts(n, k)):
            if shard and not ctx.mine(pi):
                continue
            if ctx.enough():
                return
            case = {"i": i, "short": True, "big": False, "thr": thr_mode, "cuts": list(cuts)}
            inside = check_partition(ctx, stream, ams, ends, thr, thr_mode, list(cuts), case)
            ctx.case_fast((i, True, False, thr_mode, tuple(cuts)), nontrivial=inside)
    ctx.seen("partition_kinds", f"all-{k}cuts")
    ctx.sample({"stream": stream, "all_k_cuts": k, "partitions": "C(%d,%d)" % (n - 1, k)})


def exhaustive(ctx):
    return False


def finish_notes(ctx):
    """Reach: which functions / lines of the real Buffer ran under the step budget."""
    sb = bufmon.stepbudget()
    funcs = sorted({fn for fn, ln in sb.lines})
    ctx.notes["buffer_functions_reached"] = funcs
    ctx.notes["buffer_lines_reached"] = len(sb.lines)
    ctx.notes["max_line_events_in_one_process_call"] = sb.max_steps
    for need in ("process", "_cleanup_buffer", "_find_message_in_buffer"):   # no junk here: _cleanup_beginning is C11's
        if need not in funcs:
            ctx.mark_inconclusive(f"anchored mechanism Buffer.{need} was never executed under the monitor")


def replay(ctx, case):
    if case.get("mode") == "transport":
        transport_case(ctx, case["i"])
        ctx.case_fast(("replay",))
        return
    stream, ams, ends = build_stream(ctx, case["i"], short=case.get("short", False), big=case.get("big", False))
    thr = dict(thresholds(stream, ends))[case["thr"]]
    check_partition(ctx, stream, ams, ends, thr, case["thr"], case["cuts"], case)
    ctx.case_fast(("replay",))
