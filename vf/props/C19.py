"""C19 — outbound messages are whole and in order under every I/O schedule."""
from __future__ import annotations

import asyncio
import threading
import time
from concurrent.futures import ThreadPoolExecutor

from vf.core import Inconclusive
from vf.instr import FakeWriter, LoopMonitor
from vf.ref import xmlsplit
from vf.ref.view import view_lib, view_xml

LEVEL = "exploration"
RULE = ("bursts of 1..5 uniquely tagged messages routed back-to-back and across loop iterations by a real Router to 1..3 real "
        "connections (TCP server ConnectionHandler with a FakeWriter whose drain() futures the explorer releases; TTY ConnectionHandler "
        "over the REAL aiofiles AsyncTextIOWrapper and a real thread pool whose file.write/file.flush calls are gated; the client's "
        "ConnectionHandler.send_message). EXHAUSTIVE depth-first enumeration of the scheduler's choice points: at each point the explorer "
        "chooses which parked awaitable completes next, that one connection never completes, or (some scenarios) that the peer of one connection disconnects now; each leaf is a fresh re-execution. Each "
        "connection's output is split by an independent XML splitter and must be exactly the routed messages in routed order; with a "
        "stalled connection the router call and every other connection must still finish within a bounded number of loop rounds. "
        "Some scenarios carry a 200 KB message (longer than any write buffer) followed by further messages routed after each completion, also as a 150 KB setBLOBVector to connections that enabled BLOBs. "
        "In addition every script over {route one message, one loop iteration, complete a parked awaitable} up to a bounded length "
        "is executed on a single TCP / client connection, so that routing happens in every one-iteration window around a completion. "
        "Ten scenarios route ONE message object three times, updated in between (a progress report); what was routed is recorded as it was when it was routed. non-trivial = a schedule with at least one choice point that had more than one option, a stalled connection, or a scripted interleaving; "
        "distinct = hash(scenario, choice sequence)")
ASSUMPTIONS = ["thread-pool hand-offs are awaited on the wall clock (bounded; a timeout makes the run inconclusive, never a violation)"]
REQUIRED_EVENTS = ["schedules_with_an_in_process_client_ahead_of_the_connections", "sends_of_one_message_object_updated_in_between", "schedules", "choice_points", "outputs_checked", "tcp_scenarios", "tty_scenarios", "client_scenarios", "stalled_connection_runs",
                   "scripted_interleavings", "scenarios_with_a_message_beyond_the_write_buffer"]
EXHAUSTIVE_NOTE = "all completion orders of the parked writes/flushes/drains for every scenario of the tier, plus every single stalled connection"
SHARDED = True


QUICK_SHARDS = 4


class GatedFile:
    """A text file object whose write/flush block until the explorer releases
    them (they run in the real thread pool behind aiofiles)."""

    def __init__(self):
        self.lock = threading.Lock()
        self.parked = []          # [kind, data, event, id]
        self.out = []             # completed ops in completion order
        self.entered = 0
        self.completed = 0
        self.closed = False
        self.open_all = False     # set at the end of a run: nothing blocks any more

    def _gate(self, kind, data):
        ev = threading.Event()
        with self.lock:
            self.entered += 1
            item = [kind, data, ev, self.entered]
            if self.open_all:
                ev.set()
            else:
                self.parked.append(item)
        if not ev.wait(timeout=20):
            raise TimeoutError("gate never released")
        with self.lock:
            self.out.append((kind, data))
            self.completed += 1

    def write(self, data):
        self._gate("write", data)
        return len(data)

    def flush(self):
        self._gate("flush", None)

    def text(self):
        with self.lock:
            return "".join(d for k, d in self.out if k == "write")


class CountingExecutor(ThreadPoolExecutor):
    def __init__(self, n):
        super().__init__(max_workers=n)
        self.submitted = 0

    def submit(self, fn, *a, **kw):
        self.submitted += 1
        return super().submit(fn, *a, **kw)


BIG = 200_000


class ManualExecutor(ThreadPoolExecutor):
    """The loop's DEFAULT executor during a run: jobs handed to run_in_executor(None, ...) are parked and complete when the
    explorer says so (they run in the loop thread then).  The library does not use it today; code that starts to - to serialise
    or encode a large message off the loop - turns the completion of that job into one more choice point of the schedule."""

    def __init__(self):
        super().__init__(max_workers=1)
        self.parked = []          # (id, future, fn, args, kwargs)
        self.n = 0

    def submit(self, fn, *a, **kw):
        import concurrent.futures
        fut = concurrent.futures.Future()
        self.n += 1
        self.parked.append((self.n, fut, fn, a, kw))
        return fut

    def complete(self, ident):
        item = next(x for x in self.parked if x[0] == ident)
        self.parked.remove(item)
        _, fut, fn, a, kw = item
        if fut.set_running_or_notify_cancel():
            try:
                fut.set_result(fn(*a, **kw))
            except BaseException as e:
                fut.set_exception(e)


def make_message(k, big=False, blob=False):
    import indi.message as M
    from indi.message import one_parts
    if big and blob:
        # a camera frame: the kind and size of message a server is most tempted to treat specially
        import base64
        raw = (b"M%d-" % k) + bytes(range(256)) * 600
        return M.SetBLOBVector(device="D", name="IMG", state="Ok",
                               children=(one_parts.OneBLOB(name="b", size=len(raw), format=".bin", value=base64.b64encode(raw).decode("ascii")),))
    if big:
        # longer than any buffer or slice size a transport may use (asyncio's write-buffer limit is 64 KiB)
        return M.SetTextVector(device="D", name="P", state="Ok", children=(one_parts.OneText(name="a", value=f"M{k}" + "ab>cd" * (BIG // 5)),))
    if k % 2:
        return M.Message(device="D", message=f"M{k} with > and < inside")
    return M.SetTextVector(device="D", name="P", state="Ok", children=(one_parts.OneText(name="a", value=f"M{k}"), one_parts.OneText(name="b", value="x>y")))


class Scenario:
    """conns: list of 'tcp' | 'tty' | 'client'; groups: list of burst sizes; stalled: index or None."""

    def __init__(self, conns, groups, stalled=None, script=None, big=(), blob=False, hangup=None, reuse=False, snooper=False):
        self.conns, self.groups, self.stalled, self.script, self.big, self.blob = conns, groups, stalled, script, tuple(big), blob
        self.reuse = reuse            # the application keeps ONE message object, updates it and routes it again (a progress report)
        self.snooper = snooper        # an in-process client (a snooping driver's) that wants the same BLOBs is registered ahead of the connections
        self.hangup = hangup          # index of a connection whose peer disconnects at a point of the schedule the explorer chooses

    def key(self):
        return ((tuple(self.conns), tuple(self.groups), self.stalled, self.script) + ((self.big,) if self.big else ())
                + (("blob",) if self.blob else ()) + ((("hangup", self.hangup),) if self.hangup is not None else ())
                + (("reuse",) if self.reuse else ()) + (("snooper",) if self.snooper else ()))


async def execute(ctx, sc, prefix):
    """Run one schedule.  Returns (option counts per choice point, violation or None)."""
    from indi.routing import Router
    loop = asyncio.get_running_loop()
    mon = LoopMonitor(loop)
    router = Router()
    conns = []
    executor = None
    manual = ManualExecutor()
    loop.set_default_executor(manual)
    if sc.snooper:
        # Another driver of the same process follows the camera's frames: its client model is handed the very message objects the
        # connections serialise afterwards, and takes the payload in (decodes it) first.
        import indi.message as M
        from indi.device.snoop import SnoopingClient
        from indi.message import def_parts
        sn = SnoopingClient(router)
        router.register_client(sn)
        sn.process_message(M.DefBLOBVector(device="D", name="IMG", state="Ok", perm="ro", children=(def_parts.DefBLOB(name="b"),)))
        router.process_message(M.EnableBLOB(device="D", value="Also"), sender=sn)
        ctx.count("schedules_with_an_in_process_client_ahead_of_the_connections")
    for i, kind in enumerate(sc.conns):
        if kind == "tcp":
            from indi.transport.server.tcp import ConnectionHandler
            w = FakeWriter(f"tcp{i}", auto_drain=False)
            h = ConnectionHandler(asyncio.StreamReader(), w, router)
            conns.append({"kind": kind, "handler": h, "writer": w})
        elif kind == "tty":
            import aiofiles.threadpool.text as at
            from indi.transport.server.tty import ConnectionHandler
            if executor is None:
                executor = CountingExecutor(8)
            gf = GatedFile()
            stdout = at.AsyncTextIOWrapper(gf, loop=loop, executor=executor)
            h = ConnectionHandler(router, None, stdout)
            conns.append({"kind": kind, "handler": h, "file": gf})
        else:
            from indi.transport.client.tcp import ConnectionHandler
            w = FakeWriter(f"cli{i}", auto_drain=False)
            h = ConnectionHandler(asyncio.StreamReader(), w, lambda m: None)
            conns.append({"kind": kind, "handler": h, "writer": w})
    if sc.blob:
        # the server-side connections asked for BLOBs
        import indi.message as M
        for c in conns:
            if c["kind"] != "client":
                router.process_message(M.EnableBLOB(device="D", value="Also"), sender=c["handler"])
    sent = []
    reused = [None]
    groups = list(sc.groups)
    counts = []
    nmsg = [0]

    def route_group():
        if not groups:
            return False
        for _ in range(groups.pop(0)):
            if sc.reuse:
                if reused[0] is None:
                    reused[0] = make_message(0)
                reused[0].children[0].value = f"M{nmsg[0]}"
                reused[0].state = ["Busy", "Ok"][nmsg[0] % 2]
                msg = reused[0]
                ctx.count("sends_of_one_message_object_updated_in_between")
            else:
                msg = make_message(nmsg[0], nmsg[0] in sc.big, sc.blob)
            nmsg[0] += 1
            sent.append(view_lib(msg))        # what was routed, as it was when it was routed
            t0 = time.monotonic()
            if any(c["kind"] != "client" for c in conns):
                router.process_message(msg)            # device traffic to every server-side connection
            for c in conns:
                if c["kind"] == "client":
                    c["handler"].send_message(msg)
        return True

    async def settle():
        """Let the loop run and the pool hand over until every submitted pool operation is parked."""
        deadline = time.monotonic() + 15
        quiet = 0
        while quiet < 3:
            await asyncio.sleep(0)
            busy = False
            for c in conns:
                if c["kind"] == "tty":
                    gf = c["file"]
                    with gf.lock:
                        inflight = executor.submitted - gf.completed if len([x for x in conns if x["kind"] == "tty"]) == 1 else None
                        parked = len(gf.parked)
                    if inflight is not None and parked != inflight:
                        busy = True
            if busy:
                quiet = 0
                await asyncio.sleep(0.0005)
                if time.monotonic() > deadline:
                    raise Inconclusive("thread pool hand-off did not settle within 15 s")
            else:
                quiet += 1

    hung = [False]

    def options():
        opts = [(-1, "exec", item[0]) for item in manual.parked]
        if sc.hangup is not None and not hung[0] and nmsg[0] > 0:
            opts.append((sc.hangup, "hangup", 0))
        for i, c in enumerate(conns):
            if sc.stalled == i:
                continue
            if c["kind"] == "tty":
                with c["file"].lock:
                    for item in c["file"].parked:
                        opts.append((i, "pool", item[3]))
            else:
                for j, fut in enumerate(c["writer"].pending_drains):
                    opts.append((i, "drain", j))
        return opts

    def release(opt):
        i, what, ident = opt
        if what == "exec":
            manual.complete(ident)
            ctx.count("default_executor_jobs_completed_by_the_explorer")
            return
        if what == "hangup":
            # the peer of this connection has gone: its handler closes it (what handler_func does after EOF)
            hung[0] = True
            conns[i]["handler"].close()
            ctx.count("peer_disconnects_inside_a_schedule")
            return
        c = conns[i]
        if what == "drain":
            c["writer"].release(ident)
        else:
            gf = c["file"]
            with gf.lock:
                item = next(x for x in gf.parked if x[3] == ident)
                gf.parked.remove(item)
            item[2].set()

    try:
        step = 0
        rounds = 0
        if sc.script:
            # exact interleaving of routing, single loop iterations and completions:
            # r = route one message, y = one loop iteration, d = a parked awaitable completes (choice point)
            groups[:] = [1] * sc.script.count("r")
            for tok in sc.script:
                if tok == "r":
                    route_group()
                elif tok == "y":
                    await asyncio.sleep(0)
                else:
                    opts = options()
                    if not opts:
                        continue
                    counts.append(len(opts))
                    ch = prefix[step] if step < len(prefix) else 0
                    step += 1
                    if ch >= len(opts):
                        raise Inconclusive("schedule replay diverged")
                    release(opts[ch])
        else:
            route_group()
        while True:
            await settle()
            opts = options()
            if not opts:
                if route_group():
                    continue
                break
            counts.append(len(opts))
            ch = prefix[step] if step < len(prefix) else 0
            step += 1
            if ch >= len(opts):
                raise Inconclusive(f"schedule replay diverged: choice {ch} of {len(opts)} options at step {step}")
            sub_before = executor.submitted if executor is not None else 0
            done_before = sum(1 for t, nm in zip(mon.tasks, mon.names()) if "_write" in nm and t.done())
            release(opts[ch])
            # wait for a pool op to take effect in the loop before looking again: its task either submits the
            # next pool operation or ends (thread -> loop hand-over takes real time)
            if opts[ch][1] == "pool":
                deadline = time.monotonic() + 15
                while True:
                    await asyncio.sleep(0)
                    done_now = sum(1 for t, nm in zip(mon.tasks, mon.names()) if "_write" in nm and t.done())
                    if executor.submitted > sub_before or done_now > done_before:
                        break
                    await asyncio.sleep(0.0002)
                    if time.monotonic() > deadline:
                        raise Inconclusive("released pool operation did not take effect within 15 s")
            route_group()
            rounds += 1
            if rounds > 500:
                return counts, ("stall:schedule-does-not-terminate", "more than 500 scheduling rounds", None)
        # ---- judge
        for i, c in enumerate(conns):
            if c["kind"] == "tty":
                out = c["file"].text()
            else:
                out = c["writer"].data.decode("latin1")
            ctx.count("outputs_checked")
            try:
                els, rest = xmlsplit.split(out)
            except xmlsplit.SplitError as e:
                return counts, (f"output-interleaved-or-torn:{c['kind']}", f"connection {i}: {e}", out[-300:])
            got = [view_xml(e) for e in els]
            want = list(sent)
            if sc.hangup == i and hung[0]:
                continue                          # whatever the disconnected peer still got is not judged
            if sc.stalled == i:
                # a stalled connection: what it did write must be a prefix of the routed sequence
                if rest.strip() and c["kind"] != "tty":
                    return counts, (f"stalled-connection-wrote-partial-message:{c['kind']}", rest[:200], out[-300:])
                if got != want[:len(got)]:
                    return counts, (f"output-out-of-order:{c['kind']}:stalled", f"connection {i}: {[(g[2] or dict(g[1]).get('message') or '')[:40] for g in got]}", out[-300:])
                continue
            if rest.strip():
                return counts, (f"output-ends-with-partial-message:{c['kind']}", rest[:200], out[-300:])
            if got != want:
                if sorted(map(repr, got)) == sorted(map(repr, want)):
                    key = f"output-out-of-order:{c['kind']}"
                elif len(got) < len(want):
                    key = f"output-missing-messages:{c['kind']}" + (":another-connection-stalled" if sc.stalled is not None else "")
                else:
                    key = f"output-differs:{c['kind']}"
                return counts, (key, f"connection {i}: wrote {[dict(g[1]).get('message') or [(k[2] or '')[:40] for k in g[3]] for g in got]}", out[-400:])
            if c["kind"] == "tty" and sc.stalled is None:
                # a message has only "appeared" once it was flushed: the last completed operation must be a flush
                ops = [k for k, d in c["file"].out]
                if ops and ops[-1] != "flush":
                    return counts, ("tty-output-not-flushed", f"connection {i}: operations {ops[-6:]}", out[-200:])
        failed = mon.failed()
        if failed:
            return counts, (f"task-died:{failed[0][0].split('.')[-1]}", failed[0][1], None)
        return counts, None
    finally:
        # release everything still parked so that threads and tasks can end
        for c in conns:
            if c["kind"] == "tty":
                with c["file"].lock:
                    c["file"].open_all = True
                    items = list(c["file"].parked)
                    c["file"].parked.clear()
                for it in items:
                    it[2].set()
            else:
                while c["writer"].pending_drains:
                    c["writer"].release(0)
        for _ in range(5):
            await asyncio.sleep(0)
        for t in mon.pending():
            t.cancel()
        await asyncio.sleep(0)
        if executor is not None:
            executor.shutdown(wait=True, cancel_futures=True)


def explore(ctx, sc, max_schedules=None):
    """DFS over all choice sequences of one scenario."""
    stack_ = [[]]
    n = 0
    while stack_:
        prefix = stack_.pop()
        counts, bad = asyncio.run(execute(ctx, sc, prefix))
        n += 1
        ctx.count("schedules")
        ctx.count("choice_points", len(counts))
        if sc.stalled is not None:
            ctx.count("stalled_connection_runs")
        full = prefix + [0] * (len(counts) - len(prefix))
        branching = any(c > 1 for c in counts)
        ctx.case_fast((sc.key(), tuple(full)), nontrivial=branching or sc.stalled is not None or bool(sc.script))
        if bad:
            key, what, out = bad
            ctx.violate(key, f"{what} (scenario {sc.key()}, schedule {full})",
                        {"conns": sc.conns, "groups": sc.groups, "stalled": sc.stalled, "script": sc.script, "big": list(sc.big), "blob": sc.blob, "hangup": sc.hangup, "reuse": sc.reuse, "snooper": sc.snooper, "schedule": full}, {"output_tail": out})
            return n
        # children: alternatives at positions >= len(prefix)
        for pos in range(len(counts) - 1, len(prefix) - 1, -1):
            for alt in range(1, counts[pos]):
                stack_.append(full[:pos] + [alt])
        if max_schedules and n >= max_schedules:
            ctx.count("scenarios_truncated")
            break
        if ctx.enough():
            break
    return n


def scenarios(ctx):
    out = []
    for n in (1, 2, 3, 4, 5):
        out += [Scenario(["tcp"], [n]), Scenario(["client"], [n]), Scenario(["tty"], [n])]
    out += [Scenario(["tcp"], [2, 2, 1]), Scenario(["tty"], [2, 2]), Scenario(["tty"], [1, 1, 2]), Scenario(["client"], [2, 2, 1])]
    for n in (1, 2, 3, 4):
        out += [Scenario(["tcp", "tcp"], [n]), Scenario(["tcp", "tty"], [n]), Scenario(["client", "tcp"], [n])]
        out += [Scenario(["tcp", "tcp"], [n], stalled=0), Scenario(["tcp", "tty"], [n], stalled=0), Scenario(["tcp", "tty"], [n], stalled=1)]
    out += [Scenario(["tcp", "tcp"], [2, 2]), Scenario(["tcp", "tty"], [2, 1]), Scenario(["tcp", "tcp", "tcp"], [1]),
            Scenario(["tcp", "tcp", "tcp"], [2]), Scenario(["tcp", "tcp", "tcp"], [3]), Scenario(["tcp", "tty", "client"], [2]),
            Scenario(["tcp", "tcp", "tcp"], [2], stalled=2), Scenario(["tcp", "tty", "tcp"], [2], stalled=1)]
    # a message much longer than the transport's write buffer, with further messages routed after each completion
    for kind in ("tcp", "client", "tty"):
        out += [Scenario([kind], [1, 1, 1], big=(0,)), Scenario([kind], [1, 1, 1], big=(1,)), Scenario([kind], [2, 1], big=(1,))]
    for kind in ("tcp", "client", "tty"):
        out += [Scenario([kind], [1, 1, 1], big=(0,), blob=True), Scenario([kind], [2, 1], big=(0,), blob=True), Scenario([kind], [1, 2], big=(1,), blob=True)]
    out += [Scenario(["tcp", "tcp"], [2, 1], big=(0,), blob=True)]
    # bursts followed by a further message once an EARLIER one has completed while later ones are still queued (r r r d r ...)
    for kind in ("tcp", "client", "tty"):
        out += [Scenario([kind], [3, 1]), Scenario([kind], [3, 2]), Scenario([kind], [4, 1]), Scenario([kind], [2, 1, 1])]
    # one peer disconnects somewhere in the schedule while the others have parked and queued sends
    for kind in ("tcp", "tty", "client"):
        out += [Scenario([kind], [3], reuse=True), Scenario([kind], [1, 1, 1], reuse=True), Scenario([kind], [2, 1], reuse=True)]
    out += [Scenario(["tcp", "tty"], [2, 1], reuse=True)]
    for kind in ("tcp", "tty"):
        out += [Scenario([kind], [1, 1], big=(0,), blob=True, snooper=True), Scenario([kind], [2], big=(1,), blob=True, snooper=True)]
    out += [Scenario(["tcp", "tcp"], [1, 1], big=(0,), blob=True, snooper=True)]
    out += [Scenario(["tcp", "tcp"], [2, 1], hangup=1), Scenario(["tcp", "tcp"], [1, 1, 1], hangup=0), Scenario(["tcp", "tcp", "tcp"], [2], hangup=2),
            Scenario(["tcp", "tty"], [2, 1], hangup=0)]
    out += [Scenario(["tcp", "tcp"], [1, 1], big=(0,)), Scenario(["tcp", "tty"], [1, 1], big=(0,)), Scenario(["tcp", "tcp"], [1, 1], big=(0,), stalled=0)]
    for sc_ in ("rdrdr", "rdrydr", "rdyrdr", "ryrdrd", "rdrdyrd", "rdrdrd", "rydrdr"):
        out += [Scenario(["tcp"], [], script=sc_, big=(0,)), Scenario(["client"], [], script=sc_, big=(0,)), Scenario(["tcp"], [], script=sc_, big=(1,))]
    # exact interleavings of routing, loop iterations and completions on one connection (no thread pool involved)
    import itertools
    maxlen = 7 if not ctx.thorough else 9
    nr = 3 if not ctx.thorough else 4
    for L in range(3, maxlen + 1):
        for toks in itertools.product("ryd", repeat=L):
            sc_ = "".join(toks)
            if sc_.count("r") != nr or "d" not in sc_ or sc_[0] != "r" or "yyy" in sc_ or "dd" in sc_:
                continue
            out.append(Scenario(["tcp"], [], script=sc_))
            if L <= maxlen - 1:
                out.append(Scenario(["client"], [], script=sc_))
    if ctx.thorough:
        out += [Scenario(["tcp", "tcp"], [5]), Scenario(["tcp", "tty"], [5]), Scenario(["client", "tcp"], [5]),
                Scenario(["tcp", "tcp"], [3, 2]), Scenario(["tcp", "tty"], [2, 2, 1]), Scenario(["tcp", "tcp"], [5], stalled=1),
                Scenario(["tcp", "tty"], [5], stalled=0), Scenario(["tcp", "tty"], [5], stalled=1),
                Scenario(["tcp", "tcp", "tcp"], [4]), Scenario(["tcp", "tty", "client"], [3]), Scenario(["tcp", "tty", "tcp"], [3]),
                Scenario(["tcp", "tcp", "tcp"], [2, 1]), Scenario(["tcp", "tcp", "tcp"], [3], stalled=0),
                Scenario(["tcp", "tty", "client"], [3], stalled=1), Scenario(["tcp", "tty", "client"], [3], stalled=2)]
    return out


def run(ctx):
    for i, sc in enumerate(scenarios(ctx)):
        if not ctx.mine(i):
            continue
        kinds = set(sc.conns)
        for k in kinds:
            ctx.count(f"{k}_scenarios")
        try:
            n = explore(ctx, sc, max_schedules=4000 if not ctx.thorough else 200000)
        except Inconclusive as e:
            # one scenario that could not be driven (a thread-pool hand-off that never settled) must not hide what the others show
            ctx.mark_inconclusive(f"scenario {sc.key()}: {e}")
            n = 0
        if sc.script:
            ctx.count("scripted_interleavings")
        if sc.big:
            ctx.count("scenarios_with_a_message_beyond_the_write_buffer")
        if not sc.script or i % 97 == 0:
            ctx.sample({"connections": sc.conns, "bursts": sc.groups, "script": sc.script, "stalled": sc.stalled, "schedules_enumerated": n})
        if ctx.enough():
            return


def exhaustive(ctx):
    return not ctx.counters.get("scenarios_truncated")


def replay(ctx, case):
    sc = Scenario(case["conns"], case["groups"], case.get("stalled"), case.get("script"), case.get("big") or (), bool(case.get("blob")), case.get("hangup"), bool(case.get("reuse")), bool(case.get("snooper")))
    counts, bad = asyncio.run(execute(ctx, sc, case["schedule"]))
    ctx.case_fast(("replay",))
    ctx.case_fast(("replay2",))
    if bad:
        ctx.violate(bad[0], bad[1], case, {"output_tail": bad[2]})
