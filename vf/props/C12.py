"""C12 — no client message can take a driver, a connection or the server down."""
from __future__ import annotations

import asyncio
import base64

from vf import devmon, stack
from vf.gen import drivers as D
from vf.ref import driverview as DV
from vf.ref import xmlsplit
from vf.ref.view import view_xml

LEVEL = "fault_enumeration"
RULE = ("fault catalogue of hostile-but-well-formed client messages (unknown device/property/element; every new* kind sent to every "
        "vector kind; invalid switch/number/base64 text; wrong, non-numeric, negative or missing BLOB size; missing format; no "
        "children; duplicate children; valid+unknown children; kinds a client should not send; missing required attributes) x "
        "target vector kind x injection position in a session of valid traffic x transport {real TCP ConnectionHandler on fake "
        "streams, real TTY ConnectionHandler on fake stdin/stdout, direct Router call from a registered client}. Monitors: "
        "exceptions escaping Router.process_message, Router.clients membership / writer.closed / handler task liveness, "
        "per-element snapshots of every device, the answer to a trailing getProperties, delivery of later device traffic to this "
        "and to a second connection, which must never be sent a device-bound message (new*, enableBLOB) of the hostile client. The catalogue includes well-formed messages with one extra attribute named after a word the implementation uses itself (attrib, to_string, to_xml, children, from_device, tag, __class__ ...). non-trivial = every (fault, target, position, transport); distinct = hash of that tuple")
ASSUMPTIONS = ["a kind-mismatched but applicable write may be applied (only validly named elements may change)",
               "state partially applied before a failing child of a multi-child message is allowed",
               "spoofed def/set/del from a client may be relayed to other clients"]
REQUIRED_EVENTS = ["sessions", "hostile_messages_injected", "trailing_requests_answered", "snapshots_compared", "same_element_followup_writes",
                   "tcp_sessions", "tty_sessions", "direct_sessions"]

KINDS = ["Text", "Number", "Switch", "Light", "BLOB"]
QUICK_SHARDS = 4


def make_spec():
    def els(kind, n, **kw):
        out = []
        for i in range(n):
            e = {"attr": f"e{i}", "name": f"{kind[:1]}{i}", "label": None, "default": None, "enabled": True}
            e.update(kw)
            out.append(e)
        return out

    def vec(attr, kind, elements, **kw):
        v = {"attr": attr, "kind": kind, "name": kind.upper() + "_V", "label": None, "state": None, "perm": None, "timeout": None,
             "enabled": True, "elements": elements}
        v.update(kw)
        return v
    numbers = els("Number", 3, format="%.2f", min=0, max=100, step=1)
    numbers[2]["format"] = "%.6m"          # a sexagesimal element: its rendering is not a plain printf
    vectors = [vec("t", "Text", els("Text", 2)), vec("n", "Number", numbers),
               vec("s", "Switch", els("Switch", 3), rule="OneOfMany", default_on="S0"), vec("l", "Light", els("Light", 1)),
               vec("b", "BLOB", els("BLOB", 1))]
    return {"name": "DEV", "levels": [{"groups": [{"attr": "g", "name": "G", "enabled": True, "vectors": vectors}]}]}


def other_spec():
    v = {"attr": "t", "kind": "Text", "name": "TEXT_V", "label": None, "state": None, "perm": None, "timeout": None, "enabled": True,
         "elements": [{"attr": "e0", "name": "T0", "label": None, "default": "other", "enabled": True}]}
    return {"name": "OTHER", "levels": [{"groups": [{"attr": "g", "name": "G", "enabled": True, "vectors": [v]}]}]}


VALID_VALUE = {"Text": "hello", "Number": "42.5", "Switch": "On", "BLOB": base64.b64encode(b"abc").decode()}


def one_child(kind, name, value=None, extra=""):
    value = VALID_VALUE[kind] if value is None else value
    if kind == "BLOB" and "size=" not in extra and "NOSIZE" not in extra:
        extra += ' size="3"'
    if kind == "BLOB" and "format=" not in extra and "NOFORMAT" not in extra:
        extra += ' format=".bin"'
    extra = extra.replace("NOSIZE", "").replace("NOFORMAT", "")
    return f'<one{kind} name="{name}"{extra}>{value}</one{kind}>'


def new_vec(kind, device, name, children):
    return f'<new{kind}Vector device="{device}" name="{name}">{"".join(children)}</new{kind}Vector>'


IMPLEMENTATION_WORDS = ["attrib", "to_string", "to_xml", "to_dict", "from_xml", "from_string", "children", "from_device", "from_client", "tag", "text",
                        "tail", "tag_name", "__class__", "__dict__", "self", "junk", "kwargs"]


def catalogue():
    """[(label, xml, set of (vector name, element name) that may change)]"""
    out = []
    first = {"Text": "T0", "Number": "N0", "Switch": "S1", "Light": "L0", "BLOB": "B0"}
    for tk in KINDS:
        vn = tk.upper() + "_V"
        en = first[tk]
        mk = tk if tk != "Light" else "Text"   # message kind used for "matching" writes
        out.append((f"unknown-device>{tk}", new_vec(mk, "NOPE", vn, [one_child(mk, en)]), set()))
        # device names that are "nothing" in one sense or another but name no device: nobody's state may change
        for dn, dname in (("empty", ""), ("blank", " "), ("case", "dev"), ("padded", "DEV "), ("none-word", "None")):
            out.append((f"{dn}-device-name>{tk}", new_vec(mk, dname, vn, [one_child(mk, en)]), set()))
        out.append((f"unknown-property>{tk}", new_vec(mk, "DEV", "NOPE_V", [one_child(mk, en)]), set()))
        out.append((f"unknown-element>{tk}", new_vec(mk, "DEV", vn, [one_child(mk, "NOPE")]), set()))
        out.append((f"valid+unknown-element>{tk}", new_vec(mk, "DEV", vn, [one_child(mk, en), one_child(mk, "NOPE")]), {(vn, en)}))
        out.append((f"unknown+valid-element>{tk}", new_vec(mk, "DEV", vn, [one_child(mk, "NOPE"), one_child(mk, en)]), {(vn, en)}))
        out.append((f"no-children>{tk}", new_vec(mk, "DEV", vn, []), set()))
        out.append((f"duplicate-children>{tk}", new_vec(mk, "DEV", vn, [one_child(mk, en), one_child(mk, en)]), {(vn, en)}))
        for mkind in ("Text", "Number", "Switch", "BLOB"):
            if mkind == tk:
                continue
            out.append((f"kind-mismatch:new{mkind}>{tk}", new_vec(mkind, "DEV", vn, [one_child(mkind, en)]), {(vn, en)}))
            # the same with an element that carries no text at all (value None after parsing)
            extra = ' size="5" format=".bin"' if mkind == "BLOB" else ""
            out.append((f"kind-mismatch-empty:new{mkind}>{tk}", new_vec(mkind, "DEV", vn, [f'<one{mkind} name="{en}"{extra}/>']), {(vn, en)}))
        if tk in ("Text", "Number", "BLOB"):
            extra = ' size="5" format=".bin"' if tk == "BLOB" else ""
            out.append((f"empty-element>{tk}", new_vec(tk, "DEV", vn, [f'<one{tk} name="{en}"{extra}/>']), {(vn, en)}))
    out += [
        ("invalid-switch-text", new_vec("Switch", "DEV", "SWITCH_V", [one_child("Switch", "S1", "Maybe")]), set()),
        ("empty-switch-text", new_vec("Switch", "DEV", "SWITCH_V", ['<oneSwitch name="S1"/>']), set()),
        ("invalid-number-text", new_vec("Number", "DEV", "NUMBER_V", [one_child("Number", "N0", "abc")]), set()),
        ("invalid-number-sexa4", new_vec("Number", "DEV", "NUMBER_V", [one_child("Number", "N0", "1:2:3:4")]), set()),
        ("empty-number-text", new_vec("Number", "DEV", "NUMBER_V", ['<oneNumber name="N0"/>']), {("NUMBER_V", "N0")}),
        ("number-overflow-1e999", new_vec("Number", "DEV", "NUMBER_V", [one_child("Number", "N0", "1e999")]), {("NUMBER_V", "N0")}),
        ("number-negative-overflow", new_vec("Number", "DEV", "NUMBER_V", [one_child("Number", "N0", "-1e999")]), {("NUMBER_V", "N0")}),
        ("number-nan-as-text", new_vec("Text", "DEV", "NUMBER_V", [one_child("Text", "N0", "nan")]), {("NUMBER_V", "N0")}),
        ("number-inf-as-text", new_vec("Text", "DEV", "NUMBER_V", [one_child("Text", "N0", "inf")]), {("NUMBER_V", "N0")}),
        ("number-infinity-as-text", new_vec("Text", "DEV", "NUMBER_V", [one_child("Text", "N0", "-Infinity")]), {("NUMBER_V", "N0")}),
        ("number-huge-finite-to-sexagesimal-format", new_vec("Number", "DEV", "NUMBER_V", [one_child("Number", "N2", "1e308")]), {("NUMBER_V", "N2")}),
        ("number-huge-negative-to-sexagesimal-format", new_vec("Number", "DEV", "NUMBER_V", [one_child("Number", "N2", "-9e307")]), {("NUMBER_V", "N2")}),
        ("number-huge-finite-to-printf-format", new_vec("Number", "DEV", "NUMBER_V", [one_child("Number", "N0", "1e308")]), {("NUMBER_V", "N0")}),
        # digits only, no exponent: the value is an integer beyond the float range
        ("number-400-digit-integer-to-printf-format", new_vec("Number", "DEV", "NUMBER_V", [one_child("Number", "N0", "1" + "0" * 400)]), {("NUMBER_V", "N0")}),
        ("number-400-digit-integer-to-sexagesimal-format", new_vec("Number", "DEV", "NUMBER_V", [one_child("Number", "N2", "-" + "9" * 400)]), {("NUMBER_V", "N2")}),
        # an integer that still fits a float, but not after scaling by the sexagesimal unit count
        ("number-306-digit-integer-to-sexagesimal-format", new_vec("Number", "DEV", "NUMBER_V", [one_child("Number", "N2", "1" + "0" * 305)]), {("NUMBER_V", "N2")}),
        ("number-308-digit-integer-to-printf-format", new_vec("Number", "DEV", "NUMBER_V", [one_child("Number", "N0", "-" + "9" * 308)]), {("NUMBER_V", "N0")}),
        ("number-with-a-run-of-blanks", new_vec("Number", "DEV", "NUMBER_V", [one_child("Number", "N0", "1" + " " * 19 + "x")]), set()),
        ("number-with-a-run-of-separators", new_vec("Number", "DEV", "NUMBER_V", [one_child("Number", "N0", "1" + " :" * 10 + "!")]), set()),
        ("number-400-digit-fraction", new_vec("Number", "DEV", "NUMBER_V", [one_child("Number", "N0", "0." + "0" * 400 + "1")]), {("NUMBER_V", "N0")}),
        ("number-tiny-to-sexagesimal-format", new_vec("Number", "DEV", "NUMBER_V", [one_child("Number", "N2", "1e-320")]), {("NUMBER_V", "N2")}),
        ("number-huge-sexagesimal", new_vec("Number", "DEV", "NUMBER_V", [one_child("Number", "N0", "1e400:30")]), set()),
        ("number-underscore-as-text", new_vec("Text", "DEV", "NUMBER_V", [one_child("Text", "N0", "1_000")]), {("NUMBER_V", "N0")}),
        ("sexagesimal-to-printf-number", new_vec("Number", "DEV", "NUMBER_V", [one_child("Number", "N0", "1:30")]), {("NUMBER_V", "N0")}),
        ("number-as-text-garbage", new_vec("Text", "DEV", "NUMBER_V", [one_child("Text", "N0", "not a number")]), set()),
        ("invalid-base64", new_vec("BLOB", "DEV", "BLOB_V", [one_child("BLOB", "B0", "!!!*", ' size="3"')]), {("BLOB_V", "B0")}),
        ("truncated-base64", new_vec("BLOB", "DEV", "BLOB_V", [one_child("BLOB", "B0", "QUJ", ' size="3"')]), {("BLOB_V", "B0")}),
        ("blob-wrong-size", new_vec("BLOB", "DEV", "BLOB_V", [one_child("BLOB", "B0", None, ' size="999"')]), {("BLOB_V", "B0")}),
        ("blob-nonnumeric-size", new_vec("BLOB", "DEV", "BLOB_V", [one_child("BLOB", "B0", None, ' size="big"')]), {("BLOB_V", "B0")}),
        ("blob-negative-size", new_vec("BLOB", "DEV", "BLOB_V", [one_child("BLOB", "B0", None, ' size="-3"')]), {("BLOB_V", "B0")}),
        ("blob-missing-size", new_vec("BLOB", "DEV", "BLOB_V", [one_child("BLOB", "B0", None, " NOSIZE")]), {("BLOB_V", "B0")}),
        ("blob-missing-format", new_vec("BLOB", "DEV", "BLOB_V", [one_child("BLOB", "B0", None, " NOFORMAT")]), {("BLOB_V", "B0")}),
        ("blob-empty-payload", new_vec("BLOB", "DEV", "BLOB_V", ['<oneBLOB name="B0" size="0" format=""/>']), {("BLOB_V", "B0")}),
        ("client-sends-defTextVector", '<defTextVector device="DEV" name="TEXT_V" state="Ok" perm="rw"><defText name="T0">spoof</defText></defTextVector>', set()),
        # definitions whose free-text fields (limits, format) are not what a number property would carry: the parser takes them, the
        # router relays them - among others to the client model of a snooping driver
        ("client-sends-defNumberVector-with-word-limits", '<defNumberVector device="DEV" name="NUMBER_V" state="Ok" perm="rw"><defNumber name="N0" format="%f" min="lowest" max="highest" step="any">1</defNumber></defNumberVector>', set()),
        ("client-sends-defNumberVector-with-empty-limits", '<defNumberVector device="DEV" name="NUMBER_V" state="Ok" perm="rw"><defNumber name="N0" format="%f" min="" max="" step="">1</defNumber></defNumberVector>', set()),
        ("client-sends-defNumberVector-with-odd-format", '<defNumberVector device="DEV" name="NUMBER_V" state="Ok" perm="rw"><defNumber name="N0" format="%9.4m" min="0" max="1" step="0">1</defNumber><defNumber name="N1" format="%s %s" min="0" max="1" step="0">1</defNumber><defNumber name="N2" format="" min="0" max="1" step="0">1:30</defNumber></defNumberVector>', set()),
        ("client-sends-defNumberVector-for-a-new-property", '<defNumberVector device="DEV" name="SPOOF_V" state="Ok" perm="ro"><defNumber name="X" format="%d" min="1e999" max="-1e999" step="nan">inf</defNumber></defNumberVector>', set()),
        ("client-sends-defSwitchVector-with-other-members", '<defSwitchVector device="DEV" name="SWITCH_V" state="Ok" perm="rw" rule="OneOfMany"><defSwitch name="ZZ">On</defSwitch><defSwitch name="S1">On</defSwitch></defSwitchVector>', set()),
        ("client-sends-defBLOBVector", '<defBLOBVector device="DEV" name="BLOB_V" state="Ok" perm="rw"><defBLOB name="B0"/></defBLOBVector>', set()),
        ("client-sends-defLightVector", '<defLightVector device="DEV" name="LIGHT_V" state="Alert"><defLight name="L0">Alert</defLight></defLightVector>', set()),
        ("client-sends-setTextVector", '<setTextVector device="DEV" name="TEXT_V" state="Alert"><oneText name="T0">spoof</oneText></setTextVector>', set()),
        ("client-sends-setBLOBVector", '<setBLOBVector device="DEV" name="BLOB_V" state="Ok"><oneBLOB name="B0" size="3" format=".b">QUJD</oneBLOB></setBLOBVector>', set()),
        ("client-sends-delProperty", '<delProperty device="DEV" name="TEXT_V"/>', set()),
        ("client-sends-delProperty-device", '<delProperty device="DEV"/>', set()),
        # perfectly valid messages, laid out with EMPTY lines: pretty-printed, CR LF peers, a paragraph break inside a text value
        ("blank-line-before-message", '\n\n<newTextVector device="DEV" name="TEXT_V"><oneText name="T0">after blank lines</oneText></newTextVector>', {("TEXT_V", "T0")}),
        ("blank-line-inside-message", '<newTextVector device="DEV" name="TEXT_V">\n\n  <oneText name="T0">laid out</oneText>\n\n</newTextVector>', {("TEXT_V", "T0")}),
        ("crlf-blank-line-inside-message", '<newTextVector device="DEV" name="TEXT_V">\r\n\r\n<oneText name="T0">crlf</oneText>\r\n</newTextVector>\r\n\r\n', {("TEXT_V", "T0")}),
        ("paragraph-break-in-text-value", '<newTextVector device="DEV" name="TEXT_V"><oneText name="T0">first\n\nsecond</oneText></newTextVector>', {("TEXT_V", "T0")}),
        ("client-sends-message", '<message device="DEV" message="hi"/>', set()),
        ("client-sends-message-without-device", '<message message="hi"/>', set()),
        ("client-sends-message-with-timestamp-only", '<message device="DEV" timestamp="2024-01-02T03:04:05"/>', set()),
        ("client-sends-pingRequest", '<pingRequest uid="u1"/>', set()),
        ("client-sends-pingRequest", '<pingRequest uid="1"/>', set()),
        ("client-sends-pingReply", '<pingReply uid="1"/>', set()),
        ("enableBLOB-unknown-device", '<enableBLOB device="NOPE">Also</enableBLOB>', set()),
        ("enableBLOB-bad-value", '<enableBLOB device="DEV">Sometimes</enableBLOB>', set()),
        # enableBLOB may name one property (INDI allows it); the device-wide one among the valid steps follows or precedes it.
        # (always "Also", the value the valid step uses: another value would legitimately change what this connection is sent)
        ("enableBLOB-for-an-unknown-property", '<enableBLOB device="DEV" name="NO_SUCH_PROPERTY">Also</enableBLOB>', set()),
        ("enableBLOB-for-one-property", '<enableBLOB device="DEV" name="BLOB_V">Also</enableBLOB>', set()),
        ("enableBLOB-for-two-properties", '<enableBLOB device="DEV" name="BLOB_V">Also</enableBLOB><enableBLOB device="DEV" name="TEXT_V">Also</enableBLOB>', set()),
        ("enableBLOB-without-device", '<enableBLOB>Also</enableBLOB>', set()),
        ("enableBLOB-with-empty-name", '<enableBLOB device="DEV" name="">Also</enableBLOB>', set()),
        ("getProperties-unknown-device", '<getProperties version="1.7" device="NOPE"/>', set()),
        ("getProperties-unknown-property", '<getProperties version="1.7" device="DEV" name="NOPE_V"/>', set()),
        ("getProperties-no-version", '<getProperties device="DEV"/>', set()),
        ("new-without-device", '<newTextVector name="TEXT_V"><oneText name="T0">x</oneText></newTextVector>', set()),
        ("new-without-name", '<newTextVector device="DEV"><oneText name="T0">x</oneText></newTextVector>', set()),
        ("child-without-name", '<newTextVector device="DEV" name="TEXT_V"><oneText>x</oneText></newTextVector>', set()),
        ("unknown-message-kind", '<newLightVector device="DEV" name="LIGHT_V"><oneLight name="L0">Alert</oneLight></newLightVector>', set()),
        ("wrong-child-kind", '<newTextVector device="DEV" name="TEXT_V"><defText name="T0">x</defText></newTextVector>', set()),
        ("switch-all-off-one-of-many", new_vec("Switch", "DEV", "SWITCH_V", [one_child("Switch", "S0", "Off")]), {("SWITCH_V", "S0")}),
    ]
    # Well-formed messages with one attribute more than the protocol knows, named like something the implementation itself uses
    # (a method, a flag, a field of the XML library).  A peer is free to send unknown attributes; they are to be ignored.
    for word in IMPLEMENTATION_WORDS:
        out.append((f"attribute-named-{word}:getProperties", f'<getProperties version="1.7" device="DEV" {word}="1"/>', set()))
        out.append((f"attribute-named-{word}:newTextVector",
                    f'<newTextVector device="DEV" name="TEXT_V" {word}="1"><oneText name="T0" {word}="">attr</oneText></newTextVector>', {("TEXT_V", "T0")}))
        out.append((f"attribute-named-{word}:message", f'<message device="DEV" message="hi" {word}="x"/>', set()))
    # a validly named switch may flip its siblings through the property's rule
    fixed = []
    for label, xml, allowed in out:
        if any(vn == "SWITCH_V" for vn, en in allowed):
            allowed = set(allowed) | {("SWITCH_V", f"S{i}") for i in range(3)}
        fixed.append((label, xml, allowed))
    return fixed


VALID_STEPS = [
    '<getProperties version="1.7"/>',
    '<enableBLOB device="DEV">Also</enableBLOB>',
    new_vec("Text", "DEV", "TEXT_V", [one_child("Text", "T1", "valid text")]),
    new_vec("Number", "DEV", "NUMBER_V", [one_child("Number", "N1", "7.25")]),
    '<getProperties version="1.7" device="DEV" name="SWITCH_V"/>',
    new_vec("Switch", "DEV", "SWITCH_V", [one_child("Switch", "S2", "On")]),
]


def snapshot(drivers, specs):
    snap = {}
    for drv, spec in zip(drivers, specs):
        for ga, va, g, v in D.locate(spec):
            vec = D.vector_of(drv, ga, va)
            for e in v["elements"]:
                val = getattr(vec, e["attr"]).value
                if val is not None and hasattr(val, "binary"):
                    val = ("blob", bytes(val.binary), val.format)
                snap[(spec["name"], v["name"], e["name"])] = val
            snap[(spec["name"], v["name"], "<state>")] = vec.state_
            snap[(spec["name"], v["name"], "<enabled>")] = vec.enabled
    return snap


class FakeStdin:
    def __init__(self):
        self.q = asyncio.Queue()

    async def readline(self):
        return await self.q.get()

    def feed(self, text):
        self.q.put_nowait(text)


class FakeStdout:
    def __init__(self):
        self.chunks = []

    async def write(self, data):
        self.chunks.append(data)

    async def flush(self):
        pass

    @property
    def data(self):
        return "".join(self.chunks)


class Conn:
    """Uniform view of one client connection under test."""

    def __init__(self, transport, router, sess, tap):
        self.transport = transport
        self.router = router
        self.sess = sess
        self.tap = tap
        self.rejected_by_parser = 0
        if transport == "tcp":
            self.link = sess.new_link("hostile")
        elif transport == "tty":
            from indi.transport.server.tty import ConnectionHandler
            self.stdin, self.stdout = FakeStdin(), FakeStdout()
            self.handler = ConnectionHandler(router, self.stdin, self.stdout)
            self.task = asyncio.get_running_loop().create_task(self.handler.handle())
        else:
            self.rec = devmon.RecClient("direct")
            router.register_client(self.rec)

    async def send(self, text, frag=None):
        if self.transport == "tcp":
            data = text.encode("latin1")
            if frag:
                k = max(1, len(data) // 2)
                self.link.s_reader.feed_data(data[:k])
                await self.sess.quiesce()
                self.link.s_reader.feed_data(data[k:])
            else:
                self.link.s_reader.feed_data(data)
        elif self.transport == "tty":
            # a terminal hands the text over line by line (readline): an empty line is the string "\n", only end of input is ""
            for line in (text + "\n").splitlines(keepends=True):
                self.stdin.feed(line)
        else:
            import indi.message as M
            for part in text.split("\n"):
                if not part.strip():
                    continue
                try:
                    msg = M.IndiMessage.from_string(part)
                except Exception:
                    self.rejected_by_parser += 1
                    continue
                try:
                    self.router.process_message(msg, sender=self.rec)
                except Exception:
                    pass  # recorded by the tap
        await self.sess.quiesce()

    def output(self):
        if self.transport == "tcp":
            return self.link.s_writer.data.decode("latin1")
        if self.transport == "tty":
            return self.stdout.data
        return None

    def received_views(self, start):
        """Views of the messages this connection received since `start` (offset / index)."""
        if self.transport == "direct":
            from vf.ref.view import view_lib
            return [view_lib(m) for m in self.rec.received[start:]]
        els, rest = xmlsplit.split(self.output()[start:])
        return [view_xml(e) for e in els]

    def mark(self):
        return len(self.rec.received) if self.transport == "direct" else len(self.output())

    def alive(self):
        if self.transport == "tcp":
            conn = self.sess.server_conn_of(self.link)
            return (not self.link.server_task.done(), conn is not None and conn in self.router.clients, not self.link.s_writer.closed)
        if self.transport == "tty":
            return (not self.task.done(), self.handler in self.router.clients, True)
        return (True, self.rec in self.router.clients, True)


async def session(ctx, case, fault, transport, position, frag):
    from indi.routing import Router
    label, text, allowed = fault
    tap = devmon.RouterTap(ctx, validate=False)
    try:
        router = Router()
        specs = [make_spec(), other_spec()]
        drivers = [D.build(s)(router=router) for s in specs]
        sess = stack.Session(router)
        # the second driver snoops the first one, sometimes the whole device, sometimes single properties: its in-process client
        # is one more recipient of whatever a hostile client makes the router relay
        how = (position + len(label)) % 3
        if how == 1:
            drivers[1].snoop_device(specs[0]["name"])
        elif how == 2:
            drivers[1].snoop_device(specs[0]["name"], "TEXT_V")
            drivers[1].snoop_device(specs[0]["name"], "NUMBER_V")
        ctx.count("sessions_with_a_snooping_driver" if how else "sessions_without_a_snooping_driver")
        conn = Conn(transport, router, sess, tap)
        other = Conn("tcp", router, sess, tap)
        await sess.quiesce()
        await other.send('<getProperties version="1.7"/>')
        ctx.count("sessions")
        ctx.count(f"{transport}_sessions")
        steps = list(VALID_STEPS)
        for i in range(len(steps) + 1):
            if i == position:
                before = snapshot(drivers, specs)
                tap.clear()
                ctx.count("hostile_messages_injected")
                import time
                cpu0 = time.thread_time()
                other_mark = other.mark()
                await conn.send(text, frag=frag)
                cpu = time.thread_time() - cpu0
                if cpu > 1.5:
                    # a blow-up caused by the message repeats when the same message is sent again; a collector pass or a descheduled
                    # virtual CPU booked on this interval does not: the verdict is the smallest of three measurements
                    import gc
                    was = gc.isenabled()
                    gc.disable()
                    try:
                        for _ in range(2):
                            c0 = time.thread_time()
                            await conn.send(text, frag=frag)
                            cpu = min(cpu, time.thread_time() - c0)
                    finally:
                        if was:
                            gc.enable()
                    if cpu <= 1.5:
                        ctx.count("cpu_time_readings_above_the_limit_that_did_not_repeat")
                if cpu > 1.5:
                    # CPU time of the event-loop thread for one message of a few hundred bytes: the whole server was blocked that long
                    ctx.violate(f"hostile-message-blocks-the-event-loop:{label.split('>')[0]}",
                                f"{label}: handling this {len(text)}-character message used {cpu:.1f} s of CPU time in the event-loop thread", case, {"xml": text[:300]})
                    return
                if tap.escaped:
                    m, e = tap.escaped[0]
                    ctx.violate(f"exception-escapes-router:{type(e).__name__}:{label.split('>')[0]}",
                                f"{label}: {e!r} escaped Router.process_message", case, {"xml": text})
                    return
                try:
                    leaked = [v[0] for v in other.received_views(other_mark) if v[0].startswith("new") or v[0] == "enableBLOB"]
                except xmlsplit.SplitError:
                    leaked = []
                if leaked:
                    ctx.violate(f"hostile-message-forwarded-to-another-client:{label.split('>')[0]}",
                                f"{label}: the other client connection was sent {leaked}", case, {"xml": text})
                    return
                after = snapshot(drivers, specs)
                ctx.count("snapshots_compared")
                for key in after:
                    if before[key] != after[key] and (key[1], key[2]) not in allowed:
                        ctx.violate(f"hostile-message-changed-unrelated-state:{label.split('>')[0]}",
                                    f"{label}: {key} changed {before[key]!r} -> {after[key]!r}", case, {"xml": text})
                        return
                ok = conn.alive()
                if not all(ok):
                    what = ["handler-task-ended", "unregistered-from-router", "writer-closed"][[i for i, x in enumerate(ok) if not x][0]]
                    ctx.violate(f"connection-lost:{transport}:{what}:{label.split('>')[0]}",
                                f"{label} over {transport}: {what} after the hostile message", case,
                                {"xml": text, "logged": list(ctx_logs_tail())})
                    return
            if i < len(steps):
                await conn.send(steps[i])
                if tap.escaped:
                    m, e = tap.escaped[0]
                    ctx.violate(f"valid-message-raises-after-hostile:{type(e).__name__}", f"valid step {i} raised {e!r}", case, {"xml": steps[i]})
                    return
        # trailing valid request on the same connection
        mark = conn.mark()
        await conn.send('<getProperties version="1.7" device="DEV"/>')
        try:
            views = conn.received_views(mark)
        except xmlsplit.SplitError as e:
            ctx.violate(f"output-not-well-formed:{transport}", str(e), case, {"xml": text})
            return
        want = DV.expected_device(drivers[0], specs[0])
        got = {dict(v[1]).get("name"): v for v in views if v[0].startswith("def")}
        if set(got) != set(want):
            ctx.violate(f"later-valid-request-unanswered:{transport}:{label.split('>')[0]}",
                        f"{label}: trailing getProperties answered with {sorted(got)} instead of {sorted(want)}", case,
                        {"xml": text, "alive": conn.alive()})
            return
        for name, prop in want.items():
            diffs = DV.compare_def(got[name], prop)
            if diffs:
                ctx.violate("later-valid-request-answer-differs", f"{name}: {diffs}", case, {"xml": text})
                return
        ctx.count("trailing_requests_answered")
        # a later VALID write to the very element the hostile message aimed at must still be applied and acknowledged
        for (vn, en) in sorted(allowed):
            kind = {"TEXT_V": "Text", "NUMBER_V": "Number", "SWITCH_V": "Switch", "BLOB_V": "BLOB"}.get(vn)
            if kind is None:
                continue
            value = {"Text": "same element", "Number": "12.5", "Switch": "On", "BLOB": base64.b64encode(b"xyz").decode()}[kind]
            mark = conn.mark()
            await conn.send(new_vec(kind, "DEV", vn, [one_child(kind, en, value)]))
            ctx.count("same_element_followup_writes")
            if tap.escaped:
                m, e = tap.escaped[0]
                ctx.violate(f"valid-write-to-same-element-raises:{type(e).__name__}", f"{label}: valid write to {vn}.{en} afterwards raised {e!r}", case, {"xml": text})
                return
            ga, va = "g", {"TEXT_V": "t", "NUMBER_V": "n", "SWITCH_V": "s", "BLOB_V": "b"}[vn]
            eattr = next(e["attr"] for e in next(v for _, _, _, v in D.locate(specs[0]) if v["name"] == vn)["elements"] if e["name"] == en)
            got = D.element_of(drivers[0], ga, va, eattr).value
            if kind == "Text":
                ok = got == "same element"
            elif kind == "Number":
                ok = isinstance(got, (int, float)) and abs(float(got) - 12.5) < 1e-9
            elif kind == "Switch":
                ok = got == "On"
            else:
                ok = got is not None and getattr(got, "binary", None) == b"xyz"
            if not ok:
                ctx.violate(f"valid-write-to-same-element-not-applied:{kind}:{label.split('>')[0]}",
                            f"{label}: a valid write to {vn}.{en} sent afterwards was not applied (element holds {got!r})", case, {"xml": text})
                return
            acks = [v for v in conn.received_views(mark) if v[0] == f"set{kind}Vector"] if (kind != "BLOB") else [1]
            if not acks:
                ctx.violate(f"valid-write-to-same-element-not-acknowledged:{kind}", f"{label}: no set{kind}Vector came back", case, {"xml": text})
                return
            break
        # later device traffic reaches this and the other connection
        m1, m2 = conn.mark(), other.mark()
        D.element_of(drivers[0], "g", "t", "e0").value = "after"
        await sess.quiesce()
        for who, c, mk in (("same", conn, m1), ("other", other, m2)):
            vs = c.received_views(mk)
            if not any(v[0] == "setTextVector" and dict(v[1]).get("name") == "TEXT_V" for v in vs):
                ctx.violate(f"device-traffic-missing-after-hostile:{who}-connection:{transport}",
                            f"{label}: update after the hostile message did not reach the {who} connection", case, {"xml": text})
                return
        if not all(other.alive()):
            ctx.violate("other-connection-disturbed", f"{label}: the second connection was dropped", case, {"xml": text})
        for name, err in sess.mon.failed():
            ctx.violate(f"task-died:{name}", f"{label}: task {name} ended with {err}", case, {"xml": text})
            break
        await sess.close()
    finally:
        tap.close()


def ctx_logs_tail():
    from vf import core
    return core.LOGS.last[-3:]


PAIRS = []


def one_case(ctx, case):
    cat = catalogue() + PAIRS
    if case["fault"].startswith("pair:") and not any(f[0] == case["fault"] for f in cat):
        a, b = case["fault"][5:].split("+", 1)
        base = {f[0]: f for f in catalogue()}
        cat.append((case["fault"], base[a][1] + "\n" + base[b][1], set(base[a][2]) | set(base[b][2])))
    fault = next(f for f in cat if f[0] == case["fault"])
    asyncio.run(session(ctx, case, fault, case["transport"], case["position"], case.get("frag", False)))
    ctx.case((case["fault"], case["transport"], case["position"], case.get("frag", False)), nontrivial=True,
             sample={"fault": fault[0], "xml": fault[1], "transport": case["transport"], "position": case["position"]})


def run(ctx):
    cat = catalogue()
    if ctx.thorough:
        # pairs of hostile messages: the second one injected right behind the first
        rng = ctx.rng("pairs")
        base = list(cat)
        for k in range(400):
            a, b = rng.choice(base), rng.choice(base)
            cat.append((f"pair:{a[0]}+{b[0]}", a[1] + "\n" + b[1], set(a[2]) | set(b[2])))
        PAIRS[:] = cat[len(base):]
    ctx.notes["catalogue_size"] = len(cat)
    positions = list(range(7))
    i = 0
    for fault in cat:
        for transport in ("tcp", "tty", "direct"):
            for pos in positions:
                for frag in ((False,) if not ctx.thorough else (False, True)):
                    i += 1
                    if not ctx.mine(i):
                        continue
                    if frag and transport != "tcp":
                        continue
                    one_case(ctx, {"fault": fault[0], "transport": transport, "position": pos, "frag": frag})
                    if ctx.enough():
                        return


def exhaustive(ctx):
    return True


EXHAUSTIVE_NOTE = "the whole fault catalogue x transports x positions (quick: positions 0,3,6; thorough: every position, plus fragmented delivery over TCP)"


def replay(ctx, case):
    one_case(ctx, case)
