"""C17 — waiting for an event returns the first match or times out, whatever the timing."""
from __future__ import annotations

import asyncio
import itertools

from vf.instr import VirtualClockLoop

LEVEL = "exploration"
RULE = ("deterministic virtual-clock event loop; a real BaseClient (recording send_message with virtual timestamps) mirrors one device; "
        "1..3 concurrent waitforevent calls are started at t=0; at every point of a half-integer grid one of {nothing, non-matching "
        "event, matching event, non-match then match in one receive batch, two matching events in one batch} is injected through "
        "process_message; timeout in {none, 2.25, 4.25, 7.25} (never tying with the grid), polling in {off, delay 1/interval 1, delay "
        "2/interval 3}, condition kind {expect, initial, check} x event kind {value, state, value+state = a check that also reads the vector's state, where one "
        "message changes both, any = no element filter and default event type, where the "
        "non-matching events are re-definitions raising value, state and definition events}. In every ninth run all messages carry the same (one-second resolution) timestamp. In every seventh run the client itself writes and submits each matching value just before the device confirms it. In every fifth run each non-matching event is preceded by the whole device being deleted (delProperty without a name) and defined again. In two runs of eight the waits leave an upper filter level open and name a lower one (vector+element without device; device+element without vector) while a decoy property of the same device reports, in another element, the very value / state the waits are waiting for ahead of every non-matching event; polls must address what the wait named. The complete grid is enumerated (quick: 6 "
        "points, thorough: 7 points). Oracle: the wait returns the FIRST matching event object (identity, from a "
        "spy tapping trigger_event; the callback registry holds only what the waits registered) at that event's virtual instant, or raises at exactly the timeout instant - never both, never neither; getProperties "
        "polls happen exactly at delay + k*interval while waiting and never after completion; no callback stays registered. "
        "non-trivial = a run in which at least one event was injected; distinct = hash(pattern, timeout, polling, condition)")
ASSUMPTIONS = ["exact ties between an event and the timeout instant are excluded by off-grid constants"]
REQUIRED_EVENTS = ["waits_pending_across_a_client_restart", "decoy_reports_from_another_property", "runs_with_a_filter_that_leaves_an_upper_level_open", "runs", "waits_completed_by_event", "waits_timed_out", "waits_still_pending_without_timeout", "polls_observed",
                   "batches_with_two_matches", "redefinitions_injected", "whole_device_deletions_during_a_wait", "values_written_by_the_client_and_then_confirmed", "runs_in_which_every_message_carries_the_same_timestamp"]
EXHAUSTIVE_NOTE = "every assignment of the five slot kinds to every grid point x timeouts x polling x conditions (quick: 6 grid points; thorough: 7)"

QUICK_SHARDS = 4
SLOTS = ["-", "x", "m", "xm", "mm"]
TIMEOUTS = [None, 2.25, 4.25, 7.25]
POLLING = [None, (1.0, 1.0), (2.0, 3.0)]
CONDS = [("expect", "value"), ("initial", "value"), ("check", "value"), ("expect", "state"), ("initial", "state"), ("check", "state"),
         # "any": no element filter and the default event type, so that value, state AND definition events reach the condition
         ("expect", "any"), ("initial", "any"), ("check", "any"),
         # a custom check that reads the vector's state while a value event of the same message is dispatched
         ("check", "value+state")]
HORIZON = 9.25


class Feeder:
    """Produces set messages that raise matching / non-matching events."""

    def __init__(self, cond, kind, ts=None):
        self.cond, self.kind = cond, kind
        self.ts = ts              # the timestamp every message of this feeder carries (drivers stamp at one-second resolution)
        self.n = 0
        # what the property is defined with; for ("initial", "any") value and state equal the wait's `initial`
        self.def_value, self.def_state = ("Ok", "Ok") if (cond, kind) == ("initial", "any") else ("INIT", "Idle")
        self.value = self.def_value
        self.state = self.def_state

    def definition(self):
        import indi.message as M
        from indi.message import def_parts
        return M.DefTextVector(device="D", name="P", timestamp=self.ts, state=self.def_state, perm="rw",
                               children=(def_parts.DefText(name="E", value=self.def_value),))

    def make(self, match):
        import indi.message as M
        from indi.message import one_parts
        self.n += 1
        if self.kind == "any":
            if not match:
                # a re-definition (what a poll answer looks like): raises value, state and definition events, none matching
                self.value, self.state = self.def_value, self.def_state
                return self.definition()
            new = {"expect": "GO", "initial": f"V{self.n}", "check": f"GOOD{self.n}"}[self.cond]
            if new == self.value:
                return None
            self.value = new
            return M.SetTextVector(device="D", name="P", timestamp=self.ts, state=self.state, children=(one_parts.OneText(name="E", value=new),))
        if self.kind == "value+state":
            # one message changes value AND state; the wait's check looks at both (the idiom `e.element.value == ON and
            # e.vector.state == OK`): only a message carrying a GOOD value together with state Ok satisfies it
            if match:
                st, new = "Ok", f"GOOD{self.n}"
            elif self.n % 2:
                st, new = "Busy", f"GOOD{self.n}"
            else:
                st, new = "Ok", f"BAD{self.n}"
            self.value, self.state = new, st
            return M.SetTextVector(device="D", name="P", timestamp=self.ts, state=st, children=(one_parts.OneText(name="E", value=new),))
        if self.kind == "value":
            if self.cond == "expect":
                new = "GO" if match else f"X{self.n}"
                if new == self.value:          # must be a change to raise an event: step aside first
                    return None
            elif self.cond == "initial":
                new = f"V{self.n}" if match else "INIT"
                if new == self.value:
                    return None
            else:
                new = f"GOOD{self.n}" if match else f"BAD{self.n}"
            self.value = new
            return M.SetTextVector(device="D", name="P", timestamp=self.ts, state=self.state, children=(one_parts.OneText(name="E", value=new),))
        # state events
        if self.cond == "expect":
            new = "Ok" if match else ("Busy" if self.state != "Busy" else "Alert")
        elif self.cond == "initial":
            new = ("Ok" if self.state != "Ok" else "Busy") if match else "Idle"
        else:
            new = ("Ok" if self.state != "Ok" else "Alert") if match else ("Busy" if self.state != "Busy" else "Idle")
        if new == self.state:
            return None
        self.state = new
        return M.SetTextVector(device="D", name="P", timestamp=self.ts, state=new, children=())


def wait_kwargs(cond, kind, timeout, polling, open_level=None):
    kw = _wait_kwargs(cond, kind, timeout, polling)
    # a filter that leaves an upper level open and names a lower one: "property P, element E of whatever device", "element E of
    # device D, whatever the property"
    if open_level == "device":
        del kw["device"]
    elif open_level == "vector" and "element" in kw:
        del kw["vector"]
    return kw


def _wait_kwargs(cond, kind, timeout, polling):
    from indi.client import events as E
    kw = {"device": "D", "vector": "P", "timeout": timeout}
    if kind == "any":
        if cond == "expect":
            kw["expect"] = "GO"
        elif cond == "initial":
            kw["initial"] = "Ok"
        else:
            kw["check"] = lambda ev: str(getattr(ev, "new_value", "")).startswith("GOOD")
    elif kind == "value+state":
        kw["element"] = "E"
        kw["event_type"] = E.ValueUpdate
        kw["check"] = lambda ev: str(getattr(ev, "new_value", "")).startswith("GOOD") and ev.vector.state == "Ok"
    elif kind == "value":
        kw["element"] = "E"
        kw["event_type"] = E.ValueUpdate
        if cond == "expect":
            kw["expect"] = "GO"
        elif cond == "initial":
            kw["initial"] = "INIT"
        else:
            kw["check"] = lambda ev: str(getattr(ev, "new_value", "")).startswith("GOOD")
    else:
        kw["event_type"] = E.StateUpdate
        if cond == "expect":
            kw["expect"] = "Ok"
        elif cond == "initial":
            kw["initial"] = "Idle"
        else:
            kw["check"] = lambda ev: getattr(ev, "new_state", None) in ("Ok", "Alert")
    if polling is None:
        kw["polling_enabled"] = False
    else:
        kw["polling_enabled"] = True
        kw["polling_delay"], kw["polling_interval"] = polling
    return kw


def is_match(cond, kind, ev):
    name = type(ev).__name__
    if getattr(getattr(ev, "vector", None), "name", "P") != "P":
        return False        # an event of the decoy property D.Q (element F): no filter any wait uses lets it through
    if kind == "any":
        if name == "ValueUpdate":
            v = ev.new_value
            return (cond == "expect" and v == "GO") or (cond == "initial" and v != "Ok") or (cond == "check" and str(v).startswith("GOOD"))
        if name == "StateUpdate":
            s_ = ev.new_state
            return (cond == "expect" and s_ == "GO") or (cond == "initial" and s_ != "Ok")
        return False        # a definition event carries no value: it can never satisfy a condition
    if kind == "value+state":
        # judged by what the MESSAGE carried (recorded by the harness when it injected it), not by the mirror at dispatch time
        return name == "ValueUpdate" and str(ev.new_value).startswith("GOOD") and getattr(ev, "_vf_message_state", None) == "Ok"
    if kind == "value":
        if name != "ValueUpdate":
            return False
        v = ev.new_value
        return (cond == "expect" and v == "GO") or (cond == "initial" and v != "INIT") or (cond == "check" and str(v).startswith("GOOD"))
    if name != "StateUpdate":
        return False
    s = ev.new_state
    return (cond == "expect" and s == "Ok") or (cond == "initial" and s != "Idle") or (cond == "check" and s in ("Ok", "Alert"))


def run_one(ctx, case):
    import indi.message as M
    from indi.client.client import BaseClient
    from indi.message import def_parts
    pattern, timeout, polling, conds = case["pattern"], case["timeout"], case["polling"], case["conds"]
    polling = tuple(polling) if polling else None
    loop = VirtualClockLoop()
    errors = []
    loop.set_exception_handler(lambda l, c: errors.append(repr(c.get("exception") or c.get("message"))))

    class Client(BaseClient):
        def __init__(self):
            super().__init__()
            self.sent = []

        def send_message(self, msg):
            self.sent.append((loop.time(), type(msg).__name__, getattr(msg, "device", None), getattr(msg, "name", None)))

    client = Client()
    spy = []
    # the spy taps the dispatch entry point instead of registering a callback of its own: the client's callback registry holds
    # nothing but what the waits under test put there
    real_trigger = client.trigger_event

    current_message_state = [None]

    def tapped_trigger(ev):
        try:
            ev._vf_message_state = current_message_state[0]
        except AttributeError:
            pass
        spy.append((loop.time(), ev))
        return real_trigger(ev)
    client.trigger_event = tapped_trigger
    results = []
    injected = [0]
    redefs = [0]
    two_match_batches = [0]
    whole_device_deletions = [0]
    client_writes = [0]
    runs_same_second = [0]
    decoys = [0]
    match_times = []          # instants at which the harness injected a report that satisfies the FIRST wait's condition

    async def main():
        same_second = "2024-01-02T03:04:05" if case.get("same_second") else None
        feeders = [Feeder(c, k, same_second) for c, k in conds]
        if same_second:
            runs_same_second[0] += 1
        client.process_message(feeders[0].definition())
        decoy_n = [0]

        def decoy_definition():
            return M.DefTextVector(device="D", name="Q", timestamp=same_second, state="Idle", perm="rw", children=(def_parts.DefText(name="F", value="INIT"),))

        def decoy():
            """Another property of the same device reports, in another element, the very value / state the waits are waiting for."""
            from indi.message import one_parts
            decoy_n[0] += 1
            for st, val in (("Busy", f"X{decoy_n[0]}"), ("Ok", {"expect": "GO", "initial": f"V{decoy_n[0]}", "check": f"GOOD{decoy_n[0]}"}[feeders[0].cond])):
                keep = current_message_state[0]
                current_message_state[0] = st
                client.process_message(M.SetTextVector(device="D", name="Q", timestamp=same_second, state=st, children=(one_parts.OneText(name="F", value=val),)))
                current_message_state[0] = keep
            decoys[0] += 1
        if case.get("open_level"):
            client.process_message(decoy_definition())
        client.sent.clear()
        del spy[:]
        base_callbacks = len(client.callbacks)
        # all waits watch the same property; the FIRST condition drives the injected pattern
        feeder = feeders[0]

        async def waiter(idx, cond, kind):
            rec = {"idx": idx, "cond": cond, "kind": kind, "done_at": None, "event": None, "error": None}
            results.append(rec)
            try:
                rec["event"] = await client.waitforevent(**wait_kwargs(cond, kind, timeout, polling, case.get("open_level")))
            except asyncio.CancelledError:
                rec["error"] = "cancelled"
                raise
            except Exception as e:
                rec["error"] = repr(e)
            rec["done_at"] = loop.time()

        tasks = [loop.create_task(waiter(i, c, k)) for i, (c, k) in enumerate(conds)]

        def inject(slot):
            seq = {"x": [False], "m": [True], "xm": [False, True], "mm": [True, True]}[slot]
            if slot == "mm":
                two_match_batches[0] += 1
                if feeder.cond == "expect":
                    seq = [True, False, True]      # two matching events need a change in between
            for match in seq:
                if case.get("device_vanishes") and not match:
                    # the server drops the WHOLE device (delProperty without a name) and defines it again before the next update
                    for f in feeders:
                        f.value, f.state = f.def_value, f.def_state
                    injected[0] += 2
                    redefs[0] += 1
                    current_message_state[0] = feeder.def_state
                    client.process_message(M.DelProperty(device="D"))
                    client.process_message(feeder.definition())
                    if case.get("open_level"):
                        client.process_message(decoy_definition())
                    whole_device_deletions[0] += 1
                if case.get("open_level") and not match:
                    decoy()
                msg = feeder.make(match)
                if msg is None:
                    msg = feeder.make(not match) if False else None
                if msg is not None and case.get("client_writes") and match and getattr(msg, "children", None):
                    # the application itself asked for this value: it writes and submits it, the device then confirms it
                    try:
                        cel = client.get_device("D").get_vector("P").get_element("E")
                        cel.value = msg.children[0].value
                        client.get_device("D").get_vector("P").submit()
                        client_writes[0] += 1
                    except Exception as e:
                        errors.append(f"client write raised {e!r}")
                if msg is not None and match:
                    match_times.append(loop.time())
                if msg is not None:
                    injected[0] += 1
                    if type(msg).__name__.startswith("Def"):
                        redefs[0] += 1
                    if getattr(msg, "state", None) is not None:
                        current_message_state[0] = msg.state
                    client.process_message(msg)

        for gi, slot in enumerate(pattern):
            if slot != "-":
                loop.call_at(0.5 + gi, inject, slot)
        await asyncio.sleep(HORIZON)
        pend = [t for t in tasks if not t.done()]
        for t in pend:
            t.cancel()
        for t in tasks:
            try:
                await t
            except BaseException:
                pass
        return base_callbacks

    try:
        base_callbacks = loop.run_until_complete(main())
    finally:
        try:
            pending = asyncio.all_tasks(loop)
            for t in pending:
                t.cancel()
            if pending:
                loop.run_until_complete(asyncio.gather(*pending, return_exceptions=True))
        finally:
            loop.close()
    ctx.count("runs")
    ctx.count("batches_with_two_matches", two_match_batches[0])
    ctx.count("redefinitions_injected", redefs[0])
    ctx.count("whole_device_deletions_during_a_wait", whole_device_deletions[0])
    ctx.count("decoy_reports_from_another_property", decoys[0])
    if case.get("open_level"):
        ctx.count("runs_with_a_filter_that_leaves_an_upper_level_open")
    ctx.count("values_written_by_the_client_and_then_confirmed", client_writes[0])
    ctx.count("runs_in_which_every_message_carries_the_same_timestamp", runs_same_second[0])
    # ---- oracle
    for rec in results:
        cond, kind = rec["cond"], rec["kind"]
        first = next(((t, ev) for (t, ev) in spy if is_match(cond, kind, ev)), None)
        if rec["idx"] == 0 and match_times and (first is None or first[0] > match_times[0] + 1e-9):
            # independent of the events actually raised: the harness KNOWS it reported a change that satisfies this wait's condition
            ctx.violate("matching-report-raised-no-matching-event" + (":after-the-client-wrote-that-value" if case.get("client_writes") else ""),
                        f"a report satisfying the condition was delivered at t={match_times[0]} but the first matching event "
                        f"{'came at t=%s' % first[0] if first else 'never came'}", dict(case, wait=0),
                        {"spy": [(t, type(ev).__name__, getattr(ev, "new_value", getattr(ev, "new_state", None))) for t, ev in spy][:12]})
            return False
        tlimit = timeout
        if first is not None and (tlimit is None or first[0] < tlimit):
            want = ("event", first[0], first[1])
        elif tlimit is not None:
            want = ("timeout", tlimit, None)
        else:
            want = ("pending", None, None)
        wcase = dict(case, wait=rec["idx"])
        detail = {"spy": [(t, type(ev).__name__, getattr(ev, "new_value", getattr(ev, "new_state", None))) for t, ev in spy],
                  "result": {k: (repr(v) if k == "event" else v) for k, v in rec.items()}, "polls": client.sent[:12]}
        if want[0] == "event":
            ctx.count("waits_completed_by_event")
            if rec["error"] == "cancelled" or rec["done_at"] is None:
                ctx.violate("wait-never-completes-despite-matching-event", f"matching event at t={want[1]} but the wait was still pending at t={HORIZON}", wcase, detail)
                return False
            if rec["error"]:
                ctx.violate("wait-fails-despite-matching-event-before-timeout", f"matching event at t={want[1]}, timeout {timeout}: got {rec['error']}", wcase, detail)
                return False
            if rec["event"] is not want[2]:
                later = [ev for (t, ev) in spy if is_match(cond, kind, ev)]
                which = "last-of-batch" if rec["event"] in later and later.index(rec["event"]) > 0 else "other-event"
                ctx.violate(f"wait-returns-not-the-first-match:{which}", f"returned {describe(rec['event'])}, first match was {describe(want[2])} at t={want[1]}", wcase, detail)
                return False
            if abs(rec["done_at"] - want[1]) > 1e-6:
                ctx.violate("wait-completes-at-wrong-instant", f"completed at t={rec['done_at']}, matching event at t={want[1]}", wcase, detail)
                return False
        elif want[0] == "timeout":
            ctx.count("waits_timed_out")
            if rec["error"] is None or rec["error"] == "cancelled":
                what = "returned an event" if rec["error"] is None else "was still pending"
                ctx.violate("no-timeout-raised", f"no matching event before t={tlimit} but the wait {what}", wcase, detail)
                return False
            if "imeout" not in rec["error"]:
                ctx.violate("wait-raises-other-error", rec["error"], wcase, detail)
                return False
            if abs(rec["done_at"] - tlimit) > 1e-6:
                ctx.violate("timeout-at-wrong-instant", f"raised at t={rec['done_at']}, timeout was {tlimit}", wcase, detail)
                return False
        else:
            ctx.count("waits_still_pending_without_timeout")
            if rec["error"] != "cancelled":
                ctx.violate("wait-completes-without-match-or-timeout", f"completed with {rec['event']!r} / {rec['error']}", wcase, detail)
                return False
    # ---- polling
    done_times = [rec["done_at"] if rec["done_at"] is not None else HORIZON for rec in results]
    polls = sorted(t for (t, name, dev, nm) in client.sent if name == "GetProperties")
    ctx.count("polls_observed", len(polls))
    want_polls = []
    if polling is not None:
        d, iv = polling
        for end in done_times:
            t = d
            while t < end - 1e-9 and t < HORIZON - 1e-9:
                want_polls.append(t)
                t += iv
    want_polls.sort()
    if [round(p, 6) for p in polls] != [round(p, 6) for p in want_polls]:
        late = [p for p in polls if all(p > e + 1e-9 for e in done_times)]
        key = "poll-after-completion" if late else ("polls-while-polling-disabled" if polling is None else "poll-instants-wrong")
        ctx.violate(key, f"getProperties polls at {polls}, expected {want_polls} (waits completed at {done_times})", case,
                    {"sent": client.sent[:20]})
        return False
    targets = set()
    for c_, k_ in conds:
        kw_ = wait_kwargs(c_, k_, timeout, polling, case.get("open_level"))
        targets.add((kw_.get("device"), kw_.get("vector")))
    for (t, name, dev, nm) in client.sent:
        if name == "GetProperties" and (dev, nm) not in targets:
            ctx.violate("poll-addresses-wrong-target", f"poll for device={dev} name={nm}", case)
            return False
    cancelled = sum(1 for rec in results if rec["error"] == "cancelled")   # waits the harness itself cancelled at the horizon
    if len(client.callbacks) - base_callbacks != cancelled:
        ctx.violate("callback-left-registered", f"{len(client.callbacks) - base_callbacks} temporary callback(s) still registered "
                                                f"({cancelled} waits were cancelled by the harness)", case)
        return False
    return injected[0] > 0


def describe(ev):
    return f"{type(ev).__name__}({getattr(ev, 'new_value', getattr(ev, 'new_state', None))!r})"


def one_case(ctx, case):
    nt = run_one(ctx, case)
    ctx.case_fast((tuple(case["pattern"]), case["timeout"], tuple(case["polling"]) if case["polling"] else None,
                   tuple(map(tuple, case["conds"]))), nontrivial=bool(nt))


RESTARTS = [(2.25, 4.25), (1.25, 1.75), (0.25, 3.25), (2.75, 6.75), (3.25, 3.5)]


def restart_case(ctx, k):
    """A wait with polling is pending while the application stops its (real, two-connection) Client and starts the same object
    again - the server was restarted.  The wait goes on: it keeps re-requesting the property at its interval on the NEW control
    connection, completes with the event that arrives there, and otherwise times out at its instant."""
    import indi.message as M
    from indi.client.client import Client
    from indi.message import def_parts, one_parts
    from indi.transport.client.tcp import ConnectionHandler as CH
    from vf.instr import FakeWriter
    stop_at, start_at = RESTARTS[k % len(RESTARTS)]
    interval = [1.0, 0.5, 2.0][(k // len(RESTARTS)) % 3]
    arrives = [start_at + 2.6, None][(k // (3 * len(RESTARTS))) % 2]      # the matching event, on the new connection; or never
    timeout = 11.25
    case = {"mode": "restart", "k": k}
    loop = VirtualClockLoop()
    errors = []
    loop.set_exception_handler(lambda l, c: errors.append(repr(c.get("exception") or c.get("message"))))
    made = []

    class MemConn:
        async def connect(self, callback, for_blobs=False):
            r, w = asyncio.StreamReader(), FakeWriter(f"c{len(made)}")
            h = CH(r, w, callback, for_blobs=for_blobs)
            made.append((r, w, loop.time(), for_blobs))
            return h

    out = {}

    def polls(writer):
        return writer.data.decode("latin1").count('<getProperties') - writer.data.decode("latin1").count('<getProperties version="1.7"/>') \
            if hasattr(writer, "data") else 0

    async def main():
        client = Client(MemConn(), MemConn())
        await client.start()
        made[0][0].feed_data(M.DefTextVector(device="D", name="P", state="Idle", perm="rw", children=(def_parts.DefText(name="E", value="INIT"),)).to_string())
        await asyncio.sleep(0.1)

        async def wait():
            try:
                ev = await client.waitforevent(device="D", vector="P", element="E", expect="GO", timeout=timeout, polling_enabled=True,
                                               polling_delay=interval, polling_interval=interval)
                out["result"] = ("event", loop.time(), getattr(ev, "new_value", None))
            except Exception as e:
                out["result"] = ("error", loop.time(), repr(e))
        t0 = loop.time()
        task = loop.create_task(wait())
        await asyncio.sleep(stop_at)
        client.stop()
        for r, w, _, _ in made[:2]:
            r.feed_eof()
        await asyncio.sleep(start_at - stop_at)
        await client.start()
        out["restarted_at"] = loop.time()
        if arrives is not None:
            await asyncio.sleep(arrives - start_at)
            made[2][0].feed_data(M.SetTextVector(device="D", name="P", state="Ok", children=(one_parts.OneText(name="E", value="GO"),)).to_string())
        await asyncio.sleep(timeout + 2)
        if not task.done():
            task.cancel()
            out.setdefault("result", ("pending", loop.time(), None))
        out["t0"] = t0
        out["callbacks"] = len(client.callbacks)

    try:
        loop.run_until_complete(main())
    finally:
        try:
            pending = asyncio.all_tasks(loop)
            for t in pending:
                t.cancel()
            if pending:
                loop.run_until_complete(asyncio.gather(*pending, return_exceptions=True))
        finally:
            loop.close()
    ctx.count("waits_pending_across_a_client_restart")
    kind, at, val = out.get("result", ("pending", None, None))
    new_ctl = made[2][1] if len(made) > 2 else None
    sent_new = new_ctl.data.decode("latin1") if new_ctl is not None else ""
    import re
    n_polls = len([g for g in re.findall(r"<getProperties[^>]*>", sent_new) if 'device="D"' in g and 'name="P"' in g])
    t0 = out.get("t0", 0.1)
    end = (t0 + (arrives if arrives is not None else timeout))
    # polling ticks fall at t0 + interval * j; those after the restart and before the wait ends go out on the new connection
    want = [t0 + interval * j for j in range(1, 200) if out.get("restarted_at", 1e9) < t0 + interval * j < end - 1e-9]
    detail = {"stop_at": stop_at, "start_at": start_at, "interval": interval, "event_at": arrives, "result": [kind, at, val], "loop_errors": errors[:3],
              "polls_on_the_new_connection": n_polls, "expected": len(want)}
    if arrives is not None and (kind != "event" or val != "GO" or abs(at - (t0 + arrives)) > 0.05):
        ctx.violate("restart:wait-does-not-complete-with-the-event-on-the-new-connection", f"the matching report arrived at t={t0 + arrives:.2f} on the restarted "
                    f"client's control connection; the wait ended with {kind} at {at} ({val})", case, detail)
        return
    if arrives is None and (kind != "error" or "imeout" not in str(val) or abs(at - (t0 + timeout)) > 0.05):
        ctx.violate("restart:no-timeout-at-the-timeout-instant", f"no matching report; the wait ended with {kind} at {at} ({val}), timeout instant {t0 + timeout:.2f}", case, detail)
        return
    if n_polls != len(want):
        ctx.violate("restart:polls-on-the-new-connection-" + ("missing" if n_polls < len(want) else "extra"),
                    f"after the restart at t={out.get('restarted_at')} the wait (interval {interval}) re-requested the property {n_polls} time(s) on the new "
                    f"control connection, expected {len(want)} (until t={end:.2f})", case, detail)
        return
    if out.get("callbacks"):
        ctx.violate("restart:callback-left-registered", f"{out['callbacks']} callback(s) still registered after the wait ended", case, detail)
        return
    ctx.case_fast(("restart", k))


def run(ctx):
    for k in range(30):
        if ctx.mine(k):
            restart_case(ctx, k)
    npoints = 6 if not ctx.thorough else 7
    i = 0
    for pattern in itertools.product(SLOTS, repeat=npoints):
        for ti, timeout in enumerate(TIMEOUTS):
            for pi, polling in enumerate(POLLING):
                i += 1
                if not ctx.mine(i):
                    continue
                # rotate the condition kinds over the enumeration so that every (pattern, timeout, polling) meets several of them
                picks = [CONDS[(i + k) % len(CONDS)] for k in range(1 + (i % 3))]
                if not ctx.thorough and (i % 2):
                    picks = picks[:1]
                one_case(ctx, {"pattern": list(pattern), "timeout": timeout, "polling": list(polling) if polling else None,
                               "conds": [list(p) for p in picks], "device_vanishes": i % 5 == 3, "client_writes": i % 7 == 5, "same_second": i % 9 == 4,
                               "open_level": {2: "device", 5: "vector"}.get(i % 8)})
                if i % 1499 == 0:
                    ctx.sample({"pattern": list(pattern), "timeout": timeout, "polling": polling, "conditions": picks})
                if ctx.enough():
                    return


def exhaustive(ctx):
    return True


def replay(ctx, case):
    if case.get("mode") == "restart":
        restart_case(ctx, case["k"])
        return
    one_case(ctx, case)
