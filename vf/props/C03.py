"""C03 — serialize-then-parse is the identity on protocol messages."""
from __future__ import annotations

from vf.gen import messages as G
from vf.ref.view import view_abstract, view_lib

LEVEL = "exploration"
RULE = ("abstract messages over the whole grammar: every kind x EVERY subset of its optional attributes is enumerated "
        "(values, children 0..5 and text sampled over ASCII/markup/Latin-1/BMP/astral/inner white space); each is built "
        "with the library constructors, serialised, parsed, re-serialised, and additionally written by the harness in "
        "foreign spellings (declaration, indentation, quote style, attribute order, empty-element form, character "
        "references) and parsed; non-trivial = the message has at least one attribute and the round trip was executed; "
        "distinct = hash(abstract message)")
ASSUMPTIONS = ["text never has leading/trailing white space or CR (excluded by the property)",
               "structural view compares attribute values as str, '' == absent text"]
QUICK_SHARDS = 2
REQUIRED_EVENTS = ["roundtrips", "foreign_parses", "foreign_parses_utf8_bytes", "kinds_x_optsubsets"]


def classify(am, va, vb):
    if va[0] != vb[0]:
        return "kind-changed"
    if va[1] != vb[1]:
        ka, kb = dict(va[1]), dict(vb[1])
        if set(ka) != set(kb):
            return "attribute-set-changed"
        return "attribute-value-changed"
    if va[2] != vb[2]:
        return "text-changed"
    if len(va[3]) != len(vb[3]):
        return "children-count-changed"
    if sorted(va[3]) == sorted(vb[3]):
        return "children-reordered"
    return "child-changed"


def one_case(ctx, case):
    import indi.message as M
    rng = ctx.rng("case", case["i"])
    am = G.gen_message(rng, tag=case["tag"], opt_subset=case.get("opts"), nchildren=case.get("nchildren"))
    want = view_abstract(am)
    try:
        m = G.lib_message(am)
    except Exception as e:
        ctx.violate("constructor-rejects-valid:" + am["tag"], f"library constructor rejects a valid message: {e!r}", case, am)
        ctx.case({"am": am}, nontrivial=False)
        return
    vm = view_lib(m)
    if vm != want:
        # the harness' own expectation is off - do not blame indipy
        ctx.count("constructed_view_differs")
    ctx.count("roundtrips")
    try:
        s1 = m.to_string()
    except Exception as e:
        ctx.violate("serialize-raises:" + am["tag"], f"to_string raises {e!r}", case, am)
        return
    try:
        m2 = M.IndiMessage.from_string(s1)
    except Exception as e:
        ctx.violate("parse-rejects-own-output:" + am["tag"], f"from_string rejects the library's own serialisation: {e!r}",
                    case, {"am": am, "wire": s1.decode("latin1")})
        ctx.case({"am": am}, nontrivial=True, sample={"message": am})
        return
    v2 = view_lib(m2)
    if v2 != vm:
        ctx.violate("roundtrip-changes:" + classify(am, vm, v2), "parse(serialize(m)) differs from m", case,
                    {"am": am, "wire": s1.decode("latin1"), "got": v2, "want": vm})
    else:
        s2 = m2.to_string()
        if s2 != s1:
            ctx.violate("reserialize-differs", "serialize(parse(serialize(m))) is not byte-identical", case,
                        {"am": am, "s1": s1.decode("latin1"), "s2": s2.decode("latin1")})
    # foreign spellings of the same abstract message
    for sp in G.spellings(rng, case.get("nspell", 6)):
        text = G.write_xml(am, sp)
        ctx.count("foreign_parses")
        ctx.seen("spellings", {k: sp[k] for k in ("decl", "indent", "quote", "order", "empty", "charrefs")})
        try:
            mf = M.IndiMessage.from_string(text)
        except Exception as e:
            ctx.violate("parse-rejects-foreign-spelling:" + am["tag"], f"from_string rejects an equivalent spelling: {e!r}", case,
                        {"am": am, "spelling": sp, "text": text})
            break
        vf_ = view_lib(mf)
        if vf_ != want:
            ctx.violate("foreign-spelling-misread:" + classify(am, want, vf_), "equivalent spelling parsed to a different message",
                        case, {"am": am, "spelling": sp, "text": text, "got": vf_, "want": want})
            break
        # the same spelling as UTF-8 BYTES (XML's default encoding; what a foreign peer's serializer hands over)
        ctx.count("foreign_parses_utf8_bytes")
        try:
            mb = M.IndiMessage.from_string(text.encode("utf-8"))
            vb = view_lib(mb)
        except Exception as e:
            ctx.violate("parse-rejects-foreign-spelling-as-utf8-bytes:" + am["tag"], f"from_string rejects UTF-8 bytes: {e!r}", case,
                        {"am": am, "spelling": sp, "text": text})
            break
        if vb != want:
            ctx.violate("utf8-bytes-misread:" + classify(am, want, vb), "the same spelling given as UTF-8 bytes parsed to a different message",
                        case, {"am": am, "spelling": sp, "text": text, "got": vb, "want": want})
            break
    ctx.case({"am": am}, nontrivial=len(am["attrs"]) > 0, sample={"message": am, "wire": s1.decode("latin1")})


def plan(ctx):
    """(tag, optional-subset) pairs: complete enumeration, repeated."""
    pairs = []
    for tag in G.ALL_TAGS:
        for sub in G.opt_subsets(tag):
            pairs.append((tag, sub))
    return pairs


def run(ctx):
    pairs = plan(ctx)
    reps = 12 if not ctx.thorough else 1500
    i = 0
    for rep in range(reps):
        for tag, sub in pairs:
            i += 1
            if not ctx.mine(i):
                continue
            nchildren = None
            if G.GRAMMAR[tag]["child"]:
                nchildren = [1, 0, 2, 3, 5, 1, 4][rep % 7]
            one_case(ctx, {"i": i, "tag": tag, "opts": sub, "nchildren": nchildren, "nspell": 4 if not ctx.thorough else 8})
            ctx.seen("kinds_x_optsubsets_set", (tag, tuple(sub)))
    ctx.counters["kinds_x_optsubsets"] = len(ctx.sets.get("kinds_x_optsubsets_set", ()))
    ctx.notes["kinds_x_optsubsets_total"] = len(pairs)


def replay(ctx, case):
    one_case(ctx, case)
