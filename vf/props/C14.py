"""C14 — driver event contract: Write, then default update and publication, then Change."""
from __future__ import annotations

import asyncio
import random
import base64

from vf import devmon
from vf.gen import drivers as D
from vf.gen import histories as H
from vf.gen import messages as G

LEVEL = "exploration"
RULE = ("generated driver classes whose event handlers are produced from a handler configuration: per element 0-2 handlers for each "
        "of Write / Change / Read, plain or coroutine, vetoing or not, attached with @on(elem, ...) or @on([e1, e2], ...); elements "
        "of all five kinds (switches under AnyOfMany and OneOfMany); sequences of 6-20 writes with changing and unchanged values "
        "through a client message (real newXVector via the real Router), set_value() and direct assignment, plus reads and state "
        "changes on elements with refreshing Read handlers; run inside an event loop and drained after each operation. One "
        "sequence-numbered trace holds handler invocations (with the element's stored value at that instant), publications reaching "
        "a recording client and operation boundaries; the oracle derives the required counts/phases from the configuration. "
        "In every third single-instance case the driver's public name comes from an overridden name property (constructor given nothing or an unrelated label). non-trivial = an operation on an element that has at least one handler; distinct = hash(configuration, operation index)")
ASSUMPTIONS = ["no order is demanded between publication and Change handlers, nor among handlers of one phase",
               "Change events for sibling switches flipped by a rule are not demanded; for BLOBs only 'changed bytes => Change'",
               "Element._value is read inside handler probes (the public .value would itself raise a Read event)"]
REQUIRED_EVENTS = ["operations", "multi_instance_cases", "write_handler_calls", "change_handler_calls", "read_handler_calls", "coroutine_handler_runs",
                   "vetoed_writes", "publications_observed", "operations_cut_short_by_a_failing_read_handler", "cases_with_an_overriding_subclass", "cases_with_the_name_from_an_overridden_property", "cases_subscribing_through_held_definition_objects"]


QUICK_SHARDS = 4


def make_spec(rng):
    def els(n, kind, **kw):
        out = []
        for i in range(n):
            e = {"attr": f"e{i}", "name": f"{kind[:1]}{i}", "label": None, "default": None, "enabled": True}
            e.update(kw)
            out.append(e)
        return out

    def vec(attr, kind, name, elements, **kw):
        v = {"attr": attr, "kind": kind, "name": name, "label": None, "state": None, "perm": None, "timeout": None,
             "enabled": True, "elements": elements}
        v.update(kw)
        return v

    vectors = [
        vec("t", "Text", "TXT", els(2, "Text")),
        vec("n", "Number", "NUM", els(2, "Number", format=rng.choice(["%f", "%.3f", "%.6m"]), min=None, max=None, step=0)),
        vec("a", "Switch", "ANY", els(2, "Switch"), rule="AnyOfMany", default_on=None),
        vec("o", "Switch", "ONE", els(3, "Switch"), rule="OneOfMany", default_on="S0"),
        vec("l", "Light", "LGT", els(1, "Light")),
        vec("b", "BLOB", "BLB", els(1, "BLOB")),
        vec("r", "Text", "RFR", els(1, "Text")),     # elements with refreshing Read handlers
    ]
    if rng.random() < 0.25:
        rng.choice(vectors[:6])["enabled"] = False
    # permissions: the default, rw, and write-only (a password, a command) - every one of them takes client writes
    prng = random.Random(rng.random())
    for v in vectors:
        if v["kind"] != "Light":
            v["perm"] = prng.choice([None, None, "rw", "wo"])
    # sometimes the whole GROUP is disabled while the vectors' own flags stay on: no property of it is "enabled"
    genabled = rng.random() >= 0.12
    for v in vectors:
        v["genabled"] = genabled
    return {"name": "DEV", "levels": [{"groups": [{"attr": "g", "name": "G", "enabled": genabled, "vectors": vectors}]}]}


def gen_handlers(rng, spec):
    """[{id, event, async, veto, targets:[(vattr, eattr)], refresh}]"""
    hs = []
    hid = 0
    g = spec["levels"][0]["groups"][0]
    for v in g["vectors"]:
        if v["attr"] == "r":
            continue
        for e in v["elements"]:
            for event in ("Write", "Change", "Read"):
                if event == "Write" and v["kind"] == "Light":
                    continue
                for _ in range(rng.choice([0, 0, 1, 1, 2])):
                    targets = [(v["attr"], e["attr"])]
                    if len(v["elements"]) > 1 and rng.random() < 0.25:
                        other = rng.choice([x for x in v["elements"] if x is not e])
                        targets.append((v["attr"], other["attr"]))
                    hs.append({"id": hid, "event": event, "async": rng.random() < 0.35,
                               "veto": event == "Write" and rng.random() < 0.3, "targets": targets, "refresh": None})
                    hid += 1
    # refreshing Read handler(s) on RFR
    for _ in range(rng.choice([1, 1, 2])):
        hs.append({"id": hid, "event": "Read", "async": False, "veto": False, "targets": [("r", "e0")], "refresh": f"fresh{hid}"})
        hid += 1
    # sometimes the hardware read behind a refreshing handler FAILS, once, at its n-th call: that operation is cut short (not
    # judged), everything after it is judged as usual
    if rng.random() < 0.3:
        hs[-1]["fail_at_call"] = rng.choice([1, 2, 3, 5])
    return hs


def gen_ops(rng, spec):
    g = spec["levels"][0]["groups"][0]
    ops = []
    last = {}
    for _ in range(rng.choice([6, 10, 20])):
        v = rng.choice(g["vectors"])
        e = rng.choice(v["elements"])
        key = (v["attr"], e["attr"])
        if v["attr"] == "r":
            ops.append([rng.choice(["read", "touch_state"]), v["attr"], e["attr"], None])
            continue
        how = rng.choice(["client", "client", "set_value", "assign"]) if v["kind"] != "Light" else "assign"
        if key in last and rng.random() < 0.35:
            val = last[key]                      # unchanged value
        else:
            val = H.gen_value(rng, v["kind"], e)
            while val is None:
                val = H.gen_value(rng, v["kind"], e)
            if v["kind"] == "Number":
                val = float(round(val, 3))
        last[key] = val
        ops.append([how, v["attr"], e["attr"], val])
    return ops


def assign_instances(rng, ops, n):
    """Which driver instance (0..n-1) each operation goes to."""
    return [rng.randrange(n) for _ in ops]


def build_driver(spec, handlers, trace, state, override=False, held_references=False):
    from indi.device import events
    from indi.device.events import on

    def leaf_hook(ns, defs):
        gd = defs["g"]

        def src(t):
            vd = gd.vectors[t[0]]
            if held_references:
                # through the object that was handed to the vector's constructor, kept by the application
                return getattr(vd, "_vf_original_elements", vd.elements)[t[1]]
            return vd.elements[t[1]]

        for h in handlers:
            sources = [src(t) for t in h["targets"]]
            etype = getattr(events, h["event"])

            def record(self, event, h=h):
                el = event.element
                stored = el._value
                rec = {"seq": state.next(), "what": "handler", "hid": h["id"], "event": h["event"], "async": h["async"],
                       "owner": self.name, "device": el.vector.device.name,
                       "element": el.name, "vector": el.vector.name, "in_op": state.in_op, "op": state.op_index,
                       "stored": blobkey(stored), "new_value": blobkey(getattr(event, "new_value", None)),
                       "old_value": blobkey(getattr(event, "old_value", None)),
                       "vector_stored": {k: blobkey(e._value) for k, e in el.vector._elements.items()}}
                if h.get("fail_at_call"):
                    state.calls[h["id"]] = state.calls.get(h["id"], 0) + 1
                    if state.calls[h["id"]] == h["fail_at_call"]:
                        state.failed_in_op = state.op_index
                        raise RuntimeError("failpoint: the hardware read behind this Read handler timed out")
                trace.append(rec)
                if h["veto"]:
                    event.prevent_default = True
                if h["refresh"] is not None:
                    el.reset_value(h["refresh"])

            if h["async"]:
                async def handler(self, event, record=record):
                    record(self, event)
            else:
                def handler(self, event, record=record):
                    record(self, event)
            handler.__name__ = f"h{h['id']}"
            ns[f"h{h['id']}"] = on(sources if len(sources) > 1 else sources[0], etype)(handler)

    cls = D.build(spec, leaf_hook=leaf_hook)
    if not override:
        return cls
    # a derived driver that OVERRIDES every handler under the same name and decorates the override with the same subscriptions
    # (what one does to extend a base driver's hook): each subscription still exists once, held by the most derived method
    import inspect
    ns2 = {}
    for name, base_fn in list(vars(cls).items()):
        if not hasattr(base_fn, "event_handler_attachments"):
            continue
        if inspect.iscoroutinefunction(base_fn):
            async def over(self, event, _f=base_fn):
                return await _f(self, event)
        else:
            def over(self, event, _f=base_fn):
                return _f(self, event)
        over.__name__ = name
        over.event_handler_attachments = list(base_fn.event_handler_attachments)
        ns2[name] = over
    return type(cls.__name__ + "Extended", (cls,), ns2)


def blobkey(v):
    if v is not None and hasattr(v, "binary"):
        return {"blob": base64.b64encode(v.binary).decode("ascii"), "format": v.format}
    return v


class State:
    def __init__(self):
        self.seq = 0
        self.in_op = False
        self.op_index = -1
        self.calls = {}
        self.failed_in_op = None

    def next(self):
        self.seq += 1
        return self.seq


def one_of_many_next(cur, idx, val):
    cur = list(cur)
    if val == "On":
        return ["On" if i == idx else "Off" for i in range(len(cur))]
    others_on = any(c == "On" for i, c in enumerate(cur) if i != idx)
    cur[idx] = "Off" if others_on else "On"
    return cur


def one_case(ctx, case):
    rng = ctx.rng("case", case["i"])
    spec = make_spec(rng)
    handlers = gen_handlers(rng, spec)
    ops = gen_ops(rng, spec)
    ninst = 2 if rng.random() < 0.4 else 1     # several drivers of the SAME class (Driver(name=...) exists for that)
    targets = assign_instances(rng, ops, ninst)
    order = rng.random() < 0.5                 # which instance is constructed first
    asyncio.run(execute(ctx, case, spec, handlers, ops, ninst, targets, order))


async def drain():
    for _ in range(4):
        await asyncio.sleep(0)


async def execute(ctx, case, spec, handlers, ops, ninst=1, targets=None, order=True):
    from indi import message as M
    from indi.message import one_parts
    from indi.routing import Router
    trace = []
    state = State()
    ctor_name = {}
    if ninst > 1:
        spec = dict(spec, no_class_name=True)     # the name comes from the constructor: Driver(name=...)
    elif case["i"] % 3 == 1:
        # the driver's public name comes from a `name` property its class overrides (derived from a serial number, say); what
        # the constructor is given - nothing, or an internal label - is not what the device is called
        spec = dict(spec, name_style="property")
        ctor_name["DEV"] = None if case["i"] % 2 else "unit-7"
        ctx.count("cases_with_the_name_from_an_overridden_property")
    cls = build_driver(spec, handlers, trace, state, override=bool(case.get("override")), held_references=bool(case.get("held")))
    if case.get("held"):
        ctx.count("cases_subscribing_through_held_definition_objects")
    if case.get("override"):
        ctx.count("cases_with_an_overriding_subclass")
    router = Router()
    names = ["DEV", "DEV_B"][:ninst]
    drvs = {}
    for nm in (names if order else list(reversed(names))):
        drvs[nm] = cls(name=ctor_name.get(nm, nm), router=router)
    rec = devmon.RecClient()
    router.register_client(rec)
    for nm in names:
        router.process_message(M.EnableBLOB(device=nm, value="Also"), sender=rec)   # the recorder wants BLOB updates too
    if ninst > 1:
        ctx.count("multi_instance_cases")

    def recv(message):
        trace.append({"seq": state.next(), "what": "publish", "op": state.op_index, "in_op": state.in_op,
                      "kind": type(message).__name__, "name": getattr(message, "name", None), "device": getattr(message, "device", None),
                      "children": {c.name: c.value for c in (getattr(message, "children", None) or ())},
                      "blob": {c.name: (c.size, c.format) for c in (getattr(message, "children", None) or ()) if hasattr(c, "size")}})
    rec.message_from_device = recv
    g = spec["levels"][0]["groups"][0]
    vspec = {v["attr"]: v for v in g["vectors"]}
    by_target = {}
    for h in handlers:
        for t in h["targets"]:
            by_target.setdefault(tuple(t), []).append(h)
    for oi, op in enumerate(ops):
        how, vattr, eattr, val = op
        v = vspec[vattr]
        kind = v["kind"]
        dname = names[(targets or [0] * len(ops))[oi] % ninst]
        drv = drvs[dname]
        vec = D.vector_of(drv, "g", vattr)
        el = getattr(vec, eattr)
        ename = next(e["name"] for e in v["elements"] if e["attr"] == eattr)
        old = el._value
        olds = {e["attr"]: getattr(vec, e["attr"])._value for e in v["elements"]}
        native = H.to_native(kind, val) if how not in ("read", "touch_state") else None
        mark = len(trace)
        state.op_index = oi
        state.in_op = True
        ctx.count("operations")
        ocase = dict(case, op_index=oi)
        returned = None
        try:
            if how == "client":
                if kind == "BLOB":
                    child = one_parts.OneBLOB(name=ename, size=len(native.binary), format=native.format,
                                              value=base64.b64encode(native.binary).decode("ascii"))
                elif kind == "Number":
                    child = one_parts.OneNumber(name=ename, value=repr(float(val)))
                else:
                    child = getattr(one_parts, "One" + kind)(name=ename, value=val)
                msgcls = getattr(M, f"New{kind}Vector")
                router.process_message(msgcls(device=dname, name=v["name"], children=(child,)), sender=rec)
            elif how == "set_value":
                el.set_value(native)
            elif how == "assign":
                el.value = native
            elif how == "read":
                returned = el.value
            elif how == "touch_state":
                vec.state_ = "Busy" if vec.state_ != "Busy" else "Ok"
        except Exception as e:
            state.in_op = False
            if state.failed_in_op == oi:
                ctx.count("operations_cut_short_by_a_failing_read_handler")
                await drain()
                continue
            ctx.violate(f"operation-raises:{how}:{kind}:{type(e).__name__}", f"op {op} raised {e!r}", ocase)
            return
        state.in_op = False
        end_seq = state.next()
        await drain()
        if state.failed_in_op == oi:
            ctx.count("operations_cut_short_by_a_failing_read_handler")
            continue
        seg = trace[mark:]
        hs = by_target.get((vattr, eattr), [])
        nontrivial = bool(hs)
        ctx.case_fast((case["i"], oi), nontrivial=nontrivial)
        judge(ctx, ocase, op, kind, v, vec, el, ename, old, olds, native, returned, seg, hs, end_seq, handlers, dname, ninst)
        if ctx.enough():
            return
    if case["i"] % 97 == 0:
        ctx.sample({"handlers": handlers[:6], "ops": [o[:3] + [blobkey(o[3]) if not isinstance(o[3], dict) else "blob"] for o in ops[:6]],
                    "trace_len": len(trace),
                    "trace_head": [{k: t[k] for k in ("seq", "what", "op", "in_op") if k in t} | ({"event": t["event"], "hid": t["hid"]} if t["what"] == "handler" else {"kind": t["kind"]}) for t in trace[:8]]})


def eqv(a, b):
    return blobkey(a) == blobkey(b)


def judge(ctx, case, op, kind, v, vec, el, ename, old, olds, native, returned, seg, hs, end_seq, all_handlers, dname="DEV", ninst=1):
    # With several drivers of one class every instance attaches its own bound method to the shared definition, so each
    # subscribed handler exists `ninst` times: "exactly once" is per attached handler.
    how = op[0]
    calls = [t for t in seg if t["what"] == "handler"]
    pubs = [t for t in seg if t["what"] == "publish" and t["name"] == v["name"] and t["kind"].startswith("Set") and t["device"] == dname]
    ctx.count("publications_observed", len(pubs))
    mine = [t for t in calls if t["element"] == ename and t["vector"] == v["name"] and t["device"] == dname]
    # from the generated definition, not from the library's own flag (nothing toggles flags in these histories)
    enabled = bool(v["enabled"]) and bool(v.get("genabled", True))
    if not v.get("genabled", True):
        ctx.count("operations_on_a_property_of_a_disabled_group")

    def viol(key, what):
        ctx.violate(key, what, case, {"op": [op[0], op[1], op[2], blobkey(op[3]) if not isinstance(op[3], dict) else op[3]],
                                      "old": blobkey(old), "segment": seg[:30]})

    if how in ("read", "touch_state"):
        reads = [h for h in hs if h["event"] == "Read" and not h["async"]]
        for h in reads:
            n = sum(1 for t in mine if t["hid"] == h["id"])
            ctx.count("read_handler_calls", n)
            # a state change of a property that is not enabled publishes nothing, so nothing has to be read
            if (how == "read" or enabled) and len({t["owner"] for t in mine if t["hid"] == h["id"]}) < ninst:
                return viol(f"read-handler-not-run:{how}", f"plain Read handler {h['id']} did not run for {how}")
        fresh = [h["refresh"] for h in reads if h["refresh"]]
        if how == "read":
            if fresh and returned not in fresh:
                return viol("read-returns-stale-value", f".value returned {returned!r}, Read handlers refreshed it to one of {fresh}")
            first_read = min((t["seq"] for t in mine if t["event"] == "Read"), default=None)
        else:
            if enabled:
                if len(pubs) != 1:
                    return viol("state-change-publication-count", f"{len(pubs)} updates published for a state change")
                pv = pubs[0]["children"].get(ename)
                if fresh and pv not in fresh:
                    return viol("published-stale-value", f"published {pv!r}, Read handlers refreshed it to one of {fresh}")
                rd = [t["seq"] for t in mine if t["event"] == "Read"]
                if fresh and (not rd or min(rd) > pubs[0]["seq"]):
                    return viol("read-handler-after-publication", "Read handler ran only after the update was handed to the router")
        return

    wh = [h for h in hs if h["event"] == "Write"]
    ch = [h for h in hs if h["event"] == "Change"]
    rh = [h for h in hs if h["event"] == "Read"]
    is_write = how in ("client", "set_value")
    # ---- Write handlers
    veto = False
    for h in wh:
        cs = [t for t in mine if t["hid"] == h["id"] and t["event"] == "Write"]
        ctx.count("write_handler_calls", len(cs))
        if not is_write:
            if cs:
                return viol("write-event-on-plain-assignment", f"Write handler {h['id']} ran for a driver-side assignment")
            continue
        owners = sorted(t["owner"] for t in cs)
        if len(cs) != ninst or len(set(owners)) != ninst:
            return viol(f"write-handler-count:{'coroutine' if h['async'] else 'plain'}:{len(cs)}-of-{ninst}",
                        f"Write handler {h['id']} ran {len(cs)} times (instances {owners}) for one write, {ninst} driver instance(s) attached it")
        for t in cs:
            if not eqv(t["new_value"], native):
                return viol("write-event-wrong-value", f"Write handler saw new_value {t['new_value']!r}, requested {blobkey(native)!r}")
            if h["async"]:
                ctx.count("coroutine_handler_runs")
                if t["in_op"] or t["seq"] < end_seq:
                    return viol("coroutine-write-handler-ran-inline", "coroutine Write handler ran before the synchronous part finished")
            else:
                if not t["in_op"]:
                    return viol("plain-write-handler-deferred", "plain Write handler ran after the operation returned")
                if not eqv(t["stored"], old):
                    return viol("plain-write-handler-after-state-change", f"plain Write handler saw stored value {t['stored']!r}, old was {blobkey(old)!r}")
                if t["owner"] == dname and any(not eqv(t["vector_stored"].get(a), o) for a, o in olds.items()):
                    return viol("plain-write-handler-after-state-change:another-element-of-the-vector",
                                f"plain Write handler saw the vector as {t['vector_stored']!r}, it was {({a: blobkey(o) for a, o in olds.items()})!r} before the write")
                if any(p["seq"] < t["seq"] for p in pubs):
                    return viol("plain-write-handler-after-publication", "an update was published before a plain Write handler ran")
                if h["veto"]:
                    veto = True
    stored = el._value
    if is_write and veto:
        ctx.count("vetoed_writes")
        if not eqv(stored, old):
            return viol("vetoed-write-changed-value", f"vetoed write changed the value {blobkey(old)!r} -> {blobkey(stored)!r}")
        if pubs:
            return viol("vetoed-write-published", f"vetoed write published {len(pubs)} update(s)")
        if any(t["event"] == "Change" for t in mine):
            return viol("vetoed-write-raised-change", "vetoed write raised Change")
        now = {a: getattr(vec, a)._value for a in olds}
        if any(not eqv(now[a], olds[a]) for a in olds):
            return viol("vetoed-write-changed-another-element-of-the-vector",
                        f"vetoed write changed the vector {({a: blobkey(o) for a, o in olds.items()})!r} -> {({a: blobkey(o) for a, o in now.items()})!r}")
        return
    # ---- default update
    if v.get("rule") == "OneOfMany":
        names = [e["attr"] for e in v["elements"]]
        nxt = one_of_many_next([olds[a] for a in names], names.index(op[2]), native)
        expect = nxt[names.index(op[2])]
    else:
        expect = native
    if kind == "Number":
        ok = stored is not None and abs(float(stored) - float(expect)) <= 1e-9 * max(1.0, abs(float(expect)))
    else:
        ok = eqv(stored, expect)
    if not ok:
        return viol(f"value-not-taken:{how}:{kind}", f"element holds {blobkey(stored)!r} after {how} of {blobkey(expect)!r}")
    # ---- publication
    want_pubs = 1 if enabled else 0
    if len(pubs) != want_pubs:
        return viol(f"publication-count:{how}:{len(pubs)}-instead-of-{want_pubs}", f"{len(pubs)} updates published, expected {want_pubs}")
    if pubs:
        p = pubs[0]
        if not p["in_op"]:
            return viol("publication-deferred", "update published after the operation returned")
        pv = p["children"].get(ename)
        if kind == "Number":
            from vf.ref import number as RN
            fmt = next(e for e in v["elements"] if e["attr"] == op[2])["format"]
            pn = RN.parse(pv) if pv is not None else None
            okp = pn is not None and abs(pn - float(stored)) <= RN.tolerance(fmt, float(stored))
        elif kind == "BLOB":
            okp = pv == base64.b64encode(stored.binary).decode("ascii") if stored is not None else pv in (None, "")
        else:
            okp = pv == stored or (pv in (None, "") and stored in (None, ""))
        if not okp and not any(h["refresh"] for h in rh):
            return viol(f"published-value-differs:{kind}", f"published {pv!r}, element holds {blobkey(stored)!r}")
    # ---- Change handlers
    if kind == "BLOB":
        changed = None if (old is not None and native is not None and old.binary == native.binary and old.format == native.format) else True
        if old is None and native is None:
            changed = False
    elif kind == "Number":
        changed = old is None or float(old) != float(stored)
    else:
        changed = old != stored
    for h in ch:
        cs = [t for t in mine if t["hid"] == h["id"] and t["event"] == "Change"]
        ctx.count("change_handler_calls", len(cs))
        if changed is None:
            continue
        want = ninst if changed else 0
        if len(cs) != want or (want and len({t["owner"] for t in cs}) != ninst):
            return viol(f"change-handler-count:{'changed' if changed else 'unchanged'}:{len(cs)}",
                        f"Change handler {h['id']} ran {len(cs)} times, value {'changed' if changed else 'did not change'} "
                        f"({blobkey(old)!r} -> {blobkey(stored)!r})")
        for t in cs:
            if not eqv(t["old_value"], old) or not eqv(t["new_value"], stored):
                return viol("change-event-wrong-values", f"Change carried {t['old_value']!r}->{t['new_value']!r}, actual {blobkey(old)!r}->{blobkey(stored)!r}")
            if h["async"]:
                ctx.count("coroutine_handler_runs")
                if t["in_op"]:
                    return viol("coroutine-change-handler-ran-inline", "coroutine Change handler ran inside the operation")
            else:
                if not eqv(t["stored"], stored):
                    return viol("change-before-value-stored", f"Change handler saw stored value {t['stored']!r}")
                if not t["in_op"]:
                    return viol("plain-change-handler-deferred", "plain Change handler ran after the operation returned")
    # ---- Read handlers: at least once before the publication
    if pubs:
        for h in rh:
            if h["async"]:
                continue
            rs = [t for t in mine if t["hid"] == h["id"] and t["event"] == "Read"]
            ctx.count("read_handler_calls", len(rs))
            if len({t["owner"] for t in rs if t["seq"] < pubs[0]["seq"]}) < ninst:
                return viol("read-handler-not-before-publication", f"plain Read handler {h['id']} did not run before the update was published")


def run(ctx):
    n = 12000 if not ctx.thorough else 200000
    for i in range(n):
        if not ctx.mine(i):
            continue
        one_case(ctx, {"i": i, "override": i % 4 == 1, "held": i % 3 == 2})
        if ctx.enough():
            break


def replay(ctx, case):
    one_case(ctx, case)
