"""C01 — client view converges to the device's true property state."""
from __future__ import annotations

import asyncio

from vf import devmon, fullstack, stack
from vf.gen import drivers as D
from vf.gen import histories as H
from vf.gen import messages as G
from vf.ref import driverview as DV

LEVEL = "exploration"
RULE = ("full in-memory stack: real Router + 1..3 generated drivers (1-3 groups, five vector kinds, three switch rules, printf and "
        "sexagesimal formats, initially disabled groups/vectors, inheritance depth <= 3) + real server-side TCP ConnectionHandlers + "
        "the real indi.client.client.Client (control and BLOB connection) over fragmenting wires, plus an in-process SnoopingClient "
        "of another driver; histories of 5-40 operations mixing driver-side (assign, set_value, bool_value, state, enabled on "
        "vector/group, selected_value) and client-side (handshake, assign+submit) operations with partial-delivery steps so that "
        "messages are in flight while the next operation happens; in every third session the BLOB connection's server->client direction "
        "delivers nothing for 3..60 scheduling rounds while the handshake is in flight and the drivers already change state, and is "
        "released only after the control connection went quiet (stale copies arrive last); in every third session a further client is "
        "attached through the real TTY ConnectionHandler, whose stdout suspends inside write() and flush(), and is mirrored by a "
        "reference client reading what was written; in every fourth session the application finally stops its Client, the devices go on "
        "changing (at least one whole group switched off) and the same Client object, mirror kept, is started again. At every quiescent checkpoint (a) the library client's public "
        "view and (b) a reference client fed with the very bytes of the control connection are compared with the expectation "
        "derived from the generated definition, the tracked enable flags/states and the drivers' public values. "
        "non-trivial = >=1 driver-side and >=1 client-side operation and >= 2 properties in the final mirror; "
        "distinct = hash(definitions, history, fragmentation)")
ASSUMPTIONS = ["BLOB payloads are compared by C08; Element.enabled toggles at run time are not in the quantifier",
               "numbers are compared numerically within the format's resolution",
               "a device without enabled properties may or may not be listed"]
REQUIRED_EVENTS = ["sessions_with_a_reacting_in_process_client", "writes_from_inside_a_definition_callback", "reactive_in_process_client_cases", "sessions", "sessions_with_a_slow_blob_connect", "client_submits_with_nothing_assigned", "client_handshakes_for_one_device", "sessions_with_a_tty_client", "tty_client_properties_compared", "sessions_with_lagging_blob_link", "client_restarts_with_kept_mirror", "driver_ops_while_client_disconnected", "driver_ops_during_handshake", "checkpoints", "library_client_properties_compared", "reference_mirror_messages",
                   "snooping_client_checkpoints", "ops_with_bytes_in_flight", "depth3_sessions"]

QUICK_SHARDS = 4
MODES = ["whole", "1024", "1", "random", "small"]


def gen_case(ctx, i):
    rng = ctx.rng("case", i)
    ndev = rng.choice([1, 1, 2, 3])
    force_depth = 3 if i % 4 == 0 else None
    specs = [D.gen_spec(rng, name=f"DEV{k}", depth=(force_depth if k == 0 else None)) for k in range(ndev)]
    n = rng.choice([5, 10, 20, 40])
    return {"i": i, "specs": specs, "nops": n, "mode_c2s": rng.choice(MODES), "mode_s2c": rng.choice(MODES),
            "snoop": ndev >= 2 and rng.random() < 0.6,
            # every third session: the BLOB connection's server->client direction lags behind for this many scheduling rounds
            # while the handshake is in flight and the drivers already change state
            "lag": rng.choice([3, 8, 20, 60]) if i % 3 == 1 else 0}


def client_value(rng, kind, e):
    if kind == "Text":
        return G.gen_string(rng, allow_empty=False)
    if kind == "Number":
        v = rng.choice(H.NUMBER_VALUES)
        r = rng.random()
        if r < 0.4:
            return float(v)
        if r < 0.7:
            return repr(float(v)) if "e" not in repr(float(v)) else "0.5"
        return rng.choice(["1:30", "-0:30", "12:15:30", "7", "-3.25", "10 30", "5;15"])
    if kind == "Switch":
        return rng.choice(G.SWITCH)
    raise AssertionError(kind)


class TtyPeer:
    """A client on the TTY channel: real server-side TTY ConnectionHandler, stdin fed by the harness, stdout whose write() and
    flush() suspend for 0..3 loop iterations; what was written is read by an independent reference client."""

    def __init__(self, router, rng):
        from indi.transport.server.tty import ConnectionHandler
        from vf.transportx import FakeStdin
        self.rng = rng
        self.stdin = FakeStdin()
        self.chunks = []
        self.busy = 0
        peer = self

        class Stdout:
            async def write(self, data):
                peer.busy += 1
                try:
                    for _ in range(peer.rng.choice([0, 1, 1, 2, 3])):
                        await asyncio.sleep(0)
                    peer.chunks.append(data)
                finally:
                    peer.busy -= 1

            async def flush(self):
                peer.busy += 1
                try:
                    for _ in range(peer.rng.choice([0, 1, 2])):
                        await asyncio.sleep(0)
                finally:
                    peer.busy -= 1

        self.handler = ConnectionHandler(router, self.stdin, Stdout())
        self.task = asyncio.get_running_loop().create_task(self.handler.handle())

    async def drain(self, sess):
        quiet = 0
        for _ in range(200000):
            pend = [t for t, nm in zip(sess.mon.tasks, sess.mon.names()) if not t.done() and "_write" in nm]
            if not pend and not self.busy:
                quiet += 1
                if quiet >= 3:
                    return True
            else:
                quiet = 0
            await asyncio.sleep(0)
        return False

    def view(self):
        from vf.ref import xmlsplit
        from vf.ref.client import RefClient
        from vf.ref.view import view_xml
        try:
            els, rest = xmlsplit.split("".join(self.chunks))
        except xmlsplit.SplitError as e:
            return None, f"TTY output is not a sequence of XML elements: {e}"
        if rest.strip():
            return None, f"TTY output ends inside an element: {rest[-80:]!r}"
        ref = RefClient()
        for e in els:
            ref.apply(view_xml(e))
        return ref.view(), None


async def checkpoint(ctx, case, sess, client, drivers, specs, tracks, mirror, snooper, step, tap):
    r = await sess.quiesce()
    if r < 0:
        ctx.violate("stall:loop-does-not-quiesce", "event loop did not become quiescent", case, {"step": step})
        return False
    tty = getattr(sess, "tty", None)
    if tty is not None and not await tty.drain(sess):
        ctx.violate("stall:tty-writes-do-not-finish", "the TTY connection's writes did not finish", case, {"step": step})
        return False
    ctx.count("checkpoints")
    tap.report_invalid(ctx, dict(case, step=step))
    failed = sess.mon.failed()
    if failed:
        ctx.violate(f"task-died:{failed[0][0].split('.')[-1]}", f"task {failed[0][0]} ended with {failed[0][1]}", case, {"step": step})
        return False
    for t, nm in zip(sess.mon.tasks, sess.mon.names()):
        if t.done() and ("wait_for_messages" in nm or "handler_func" in nm):
            ctx.violate("receive-loop-ended", f"{nm} finished during the session", case, {"step": step})
            return False
    view = stack.client_view(client)
    ref, err = mirror.build("routed")
    if err:
        ctx.violate("server-stream-unreadable-by-reference-client", err, case, {"step": step})
        return False
    refview = ref.view()
    arrival_view = None
    for drv, spec, track in zip(drivers, specs, tracks):
        expected = DV.expected_device(drv, spec, track)
        ctx.count("library_client_properties_compared", len(expected))
        # State (and payload) of BLOB properties travel in setBLOBVector, which the protocol withholds from a connection
        # whose enableBLOB is Never or still in flight: not demanded here, checked by C08 at quiescent points.
        for k, p in expected.items():
            if p["kind"] == "BLOB":
                p["state"] = None
        view = {d: {n: (dict(x, state=None) if x["kind"] == "BLOB" else x) for n, x in props.items()} for d, props in view.items()}
        refview = {d: {n: (dict(x, state=None) if x["kind"] == "BLOB" else x) for n, x in props.items()} for d, props in refview.items()}
        for who, v in (("reference-client", refview.get(spec["name"], {})), ("library-client", view.get(spec["name"], {}))):
            diffs = fullstack.compare_mirror(v, expected, who=who)
            if diffs:
                key = f"{who}:{diffs[0][0]}"
                if who == "library-client":
                    # The server emitted the right messages in the right order (the reference client in routed
                    # order agrees with the device).  Is the library client merely faithful to the order in which
                    # the two connections delivered them?
                    if arrival_view is None:
                        aref, _ = mirror.build("arrival")
                        arrival_view = aref.view()
                    adiffs = fullstack.compare_mirror(view.get(spec["name"], {}), _as_expected(arrival_view.get(spec["name"], {})), who=who, exact=True)
                    if not adiffs:
                        key = "library-client:raced-across-control-and-blob-connection"
                ctx.violate(key, f"step {step}: {diffs[0][1]} (+{len(diffs) - 1} more)", case, {"step": step, "diffs": diffs[:6]})
                return False
        if tty is not None:
            tview, terr = tty.view()
            if terr:
                ctx.violate("tty-output-unreadable", terr, case, {"step": step})
                return False
            tv = {n: (dict(x, state=None) if x["kind"] == "BLOB" else x) for n, x in tview.get(spec["name"], {}).items()}
            ctx.count("tty_client_properties_compared", len(expected))
            diffs = fullstack.compare_mirror(tv, expected, who="tty-client")
            if diffs:
                ctx.violate(f"tty-client:{diffs[0][0]}", f"step {step}: {diffs[0][1]} (+{len(diffs) - 1} more)", case, {"step": step, "diffs": diffs[:6]})
                return False
        md = fullstack.compare_metadata(ref.devices.get(spec["name"], {}), expected)
        if md:
            ctx.violate(f"wire-metadata:{md[0][0]}", f"step {step}: {md[0][1]}", case, {"step": step, "diffs": md[:6]})
            return False
    if snooper is not None:
        sn_client, sn_dev = snooper
        ctx.count("snooping_client_checkpoints")
        expected = DV.expected_device(drivers[sn_dev], specs[sn_dev], tracks[sn_dev])
        v = stack.client_view(sn_client).get(specs[sn_dev]["name"], {})
        # a snooping client keeps BLOBs disabled (enableBLOB Never), so by protocol it never receives setBLOBVector:
        # state and payload of BLOB properties cannot be demanded of it
        expected = {k: (dict(p, state=v.get(k, {}).get("state", p["state"])) if p["kind"] == "BLOB" else p) for k, p in expected.items()}
        v = dict(v)
        diffs = fullstack.compare_mirror(v, expected, who="snooping-client")
        if diffs:
            ctx.violate(f"snooping-client:{diffs[0][0]}", f"step {step}: {diffs[0][1]}", case, {"step": step, "diffs": diffs[:6]})
            return False
        # The snooping client is a registered client like any other: the library client's handshake made EVERY device define itself
        # to everybody, so it also mirrors the device of the very driver it belongs to - a client other than that driver.
        own = 1
        expected = DV.expected_device(drivers[own], specs[own], tracks[own])
        v = stack.client_view(sn_client).get(specs[own]["name"], {})
        expected = {k: (dict(p, state=v.get(k, {}).get("state", p["state"])) if p["kind"] == "BLOB" else p) for k, p in expected.items()}
        ctx.count("snooping_client_checkpoints_on_its_own_drivers_device")
        diffs = fullstack.compare_mirror(dict(v), expected, who="snooping-client")
        if diffs:
            ctx.violate(f"snooping-client:own-device:{diffs[0][0]}", f"step {step}: the snooping client of driver {specs[own]['name']} about that driver's own device: {diffs[0][1]}",
                        case, {"step": step, "diffs": diffs[:6]})
            return False
    return True


async def reconnect_phase(ctx, case, sess, client, drivers, specs, tracks, snooper, tap):
    """The application stops its client (both connections close), the devices go on changing - values, states, and whole
    groups and single properties switched off or on - and the SAME Client object, which kept its mirror, is started again.
    After its handshake it must again show exactly what the devices offer."""
    rng = ctx.rng("reconnect", case["i"])
    old_links = client._vf_links
    try:
        client.stop()
    except Exception as e:
        ctx.violate(f"client-stop-raises:{type(e).__name__}", f"Client.stop() raised {e!r}", case, {"step": "stop"})
        return False
    for link in old_links:
        link.s2c.hold = True              # a closed socket delivers nothing further
        link.c_reader.feed_eof()
    if await sess.quiesce() < 0:
        ctx.violate("stall:loop-does-not-quiesce", "event loop did not become quiescent after Client.stop()", case, {"step": "stop"})
        return False
    failed = sess.mon.failed()
    if failed:
        ctx.violate(f"task-died:{failed[0][0].split('.')[-1]}", f"task {failed[0][0]} ended with {failed[0][1]} after Client.stop()", case, {"step": "stop"})
        return False
    sess.mon.tasks = [t for t in sess.mon.tasks if not t.done()]          # the closed connections' loops have ended, as they should
    ops = []
    for k, spec in enumerate(specs):
        groups = sorted({ga for ga, _, _, _ in D.locate(spec)})
        if groups and rng.random() < 0.8:
            ops.append((k, ["genable", k, rng.choice(groups), False]))
    for _ in range(rng.choice([2, 5, 9])):
        k = rng.randrange(len(specs))
        ops.append((k, H.gen_driver_op(rng, k, specs[k])))
    rng.shuffle(ops)
    for k, op in ops:
        try:
            H.apply_driver_op(drivers[k], specs[k], op)
            tracks[k].apply(op)
        except Exception as e:
            ctx.violate(f"driver-operation-raises:{op[0]}:{type(e).__name__}", f"{op} raised {e!r}", case, {"step": "while-disconnected"})
            return False
        ctx.count("driver_ops_while_client_disconnected")
    sess.connect_delay.clear()
    try:
        await client.start()
    except Exception as e:
        ctx.violate(f"client-restart-raises:{type(e).__name__}", f"Client.start() after stop() raised {e!r}", case, {"step": "restart"})
        return False
    client._vf_links = (client.control_connection.link, client.blob_connection.link)
    # the reference client keeps its mirror across the two sessions too: it reads the bytes of all four connections
    mirror = fullstack.MultiMirror([l.s2c for l in old_links] + [l.s2c for l in client._vf_links])
    ctx.count("client_restarts_with_kept_mirror")
    return await checkpoint(ctx, case, sess, client, drivers, specs, tracks, mirror, snooper, "reconnected", tap)


async def session(ctx, case):
    from indi.routing import Router
    rng = ctx.rng("ops", case["i"])
    specs = case["specs"]
    tap = devmon.RouterTap(ctx)
    try:
        router = Router()
        drivers = [D.build(s)(router=router) for s in specs]
        for drv, spec in zip(drivers, specs):
            miss = D.missing_groups(drv, spec)
            if miss:
                ctx.violate(f"group-lost-in-inheritance:depth{len(spec['levels'])}", f"driver {spec['name']} has no group {miss}", case)
                return False, 0, 0
        tracks = [DV.Track(s) for s in specs]
        sess = stack.Session(router, seed=case["i"], mode_c2s=case["mode_c2s"], mode_s2c=case["mode_s2c"])
        tty = None
        if case["i"] % 3 == 2:
            # a second connected client on the TTY channel (the driver started by an indiserver): its stdout really suspends in
            # write() and flush(), as the aiofiles wrappers do, so that updates are published while an earlier one is being written
            tty = TtyPeer(router, ctx.rng("tty", case["i"]))
            tty.stdin.feed('<getProperties version="1.7"/>\n')
            ctx.count("sessions_with_a_tty_client")
        sess.tty = tty
        if case["i"] % 5 == 4:
            # the BLOB connection takes a while to come up; the server meanwhile answers on the control connection
            sess.connect_delay["blob"] = ctx.rng("slow-blob", case["i"]).choice([2, 5, 20, 80])
            ctx.count("sessions_with_a_slow_blob_connect")
        client = await sess.make_client()
        mirror = fullstack.MultiMirror([client._vf_links[0].s2c, client._vf_links[1].s2c])
        snooper = None
        if case.get("snoop"):
            if case["i"] % 2 == 0:
                # (reacting snooper, below) let the accepted connections register with the router first: the snooping client is then
                # the LAST registered client, and the re-entrant ordering defect recorded as a known finding stays out of these sessions
                for _ in range(4):
                    await asyncio.sleep(0)
            sn = drivers[1].snoop_device(specs[0]["name"])
            snooper = (sn, 0)
        if snooper is not None and case["i"] % 2 == 0:
            # The snooping driver REACTS: whenever a Text / Number property of the snooped device is (re-)defined it writes a value of
            # its own from inside the callback.  Its client was registered last, so nobody is handed the update before the definition.
            from indi.client import events as CE
            rrng = ctx.rng("reactive", case["i"])
            dev0 = specs[0]["name"]

            def react(event, _n=[0]):
                vec = event.vector
                kind = type(vec).__name__.replace("Vector", "")
                if kind not in ("Text", "Number") or _n[0] > 200:
                    return
                names = list(vec.list_elements())
                if not names:
                    return
                _n[0] += 1
                vec.get_element(rrng.choice(names)).value = client_value(rrng, kind, None)
                try:
                    vec.submit()
                except Exception as e:
                    reactive_errors.append(repr(e))
                ctx.count("writes_from_inside_a_definition_callback")
            reactive_errors = []
            sn.onevent(callback=react, device=dev0, event_type=CE.DefinitionUpdate)
            ctx.count("sessions_with_a_reacting_in_process_client")
        ctx.count("sessions")
        if any(len(s["levels"]) >= 3 for s in specs):
            ctx.count("depth3_sessions")
        if case.get("lag"):
            # hostile start: the BLOB link delivers nothing to the client for a while (a congested second connection), the control
            # link runs, and the drivers change state before the client's enableBLOB messages have been processed
            lrng = ctx.rng("lag", case["i"])
            blob_wire = client._vf_links[1].s2c
            blob_wire.hold = True
            ctx.count("sessions_with_lagging_blob_link")
            for rnd in range(case["lag"]):
                sess.pump()
                await asyncio.sleep(0)
                if lrng.random() < 0.5:
                    k = lrng.randrange(len(specs))
                    op = H.gen_driver_op(lrng, k, specs[k])
                    try:
                        H.apply_driver_op(drivers[k], specs[k], op)
                        tracks[k].apply(op)
                    except Exception as e:
                        ctx.violate(f"driver-operation-raises:{op[0]}:{type(e).__name__}", f"{op} raised {e!r}", case, {"step": f"lag{rnd}"})
                        return False, 0, 0
                    ctx.count("driver_ops_during_handshake")
            # let the fast connection finish, THEN release the lagging one: its stale copies arrive last
            for _ in range(200):
                moved = sess.pump()
                await asyncio.sleep(0)
                if not moved:
                    break
            blob_wire.hold = False
        if not await checkpoint(ctx, case, sess, client, drivers, specs, tracks, mirror, snooper, "handshake", tap):
            return False, 0, 0
        ndrv = ncli = 0
        for step in range(case["nops"]):
            r = rng.random()
            inflight = sess.in_flight() > 0
            if r < 0.55:
                k = rng.randrange(len(specs))
                op = H.gen_driver_op(rng, k, specs[k])
                try:
                    H.apply_driver_op(drivers[k], specs[k], op)
                    tracks[k].apply(op)
                except Exception as e:
                    ctx.violate(f"driver-operation-raises:{op[0]}:{type(e).__name__}", f"{op} raised {e!r}", case, {"step": step})
                    return False, ndrv, ncli
                ndrv += 1
                ctx.count("driver_ops")
                if inflight:
                    ctx.count("ops_with_bytes_in_flight")
            elif r < 0.8:
                view = stack.client_view(client)
                cands = [(d, p) for d, props in view.items() for p, x in props.items() if x["kind"] in ("Text", "Number", "Switch")]
                if not cands:
                    continue
                d, p = rng.choice(cands)
                vec = client.get_device(d).get_vector(p)
                names = list(vec.list_elements())
                if not names:
                    continue
                chosen = rng.sample(names, rng.randrange(1, min(3, len(names)) + 1))
                kind = view[d][p]["kind"]
                if rng.random() < 0.15:
                    chosen = []          # submit() with nothing assigned: a write the device has nothing to answer to
                    ctx.count("client_submits_with_nothing_assigned")
                for nm in chosen:
                    vec.get_element(nm).value = client_value(rng, kind, None)
                try:
                    vec.submit()
                except Exception as e:
                    ctx.violate(f"client-submit-raises:{kind}:{type(e).__name__}", f"submit on {d}.{p} raised {e!r}", case, {"step": step})
                    return False, ndrv, ncli
                ncli += 1
                ctx.count("client_writes")
                if inflight:
                    ctx.count("ops_with_bytes_in_flight")
            elif r < 0.85:
                # a second handshake: plain, or asking for one device / one property only (what waitforevent's polling sends) -
                # asking again for less must not make the connection learn less about everything else afterwards
                hr = rng.random()
                if hr < 0.4:
                    client.handshake()
                elif hr < 0.7:
                    client.handshake(device=rng.choice(specs)["name"])
                    ctx.count("client_handshakes_for_one_device")
                else:
                    sp_ = rng.choice(specs)
                    vs_ = [v["name"] for _, v in D.vectors_of(sp_)]
                    client.handshake(device=sp_["name"], name=rng.choice(vs_) if vs_ else None)
                    ctx.count("client_handshakes_for_one_device")
                ncli += 1
                ctx.count("client_handshakes")
            elif r < 0.95:
                for _ in range(rng.choice([1, 2, 5])):
                    sess.pump()
                    await asyncio.sleep(0)
                ctx.count("partial_deliveries")
                continue
            else:
                if not await checkpoint(ctx, case, sess, client, drivers, specs, tracks, mirror, snooper, step, tap):
                    return False, ndrv, ncli
            if tap.escaped:
                m, e = tap.escaped[0]
                ctx.violate(f"exception-escapes-router:{type(e).__name__}", f"{e!r} escaped Router.process_message", case, {"step": step})
                return False, ndrv, ncli
        ok = await checkpoint(ctx, case, sess, client, drivers, specs, tracks, mirror, snooper, "final", tap)
        if ok and case["i"] % 4 == 1:
            ok = await reconnect_phase(ctx, case, sess, client, drivers, specs, tracks, snooper, tap)
        ctx.counters["reference_mirror_messages"] = ctx.counters.get("reference_mirror_messages", 0) + mirror.messages
        nprops = sum(len(DV.expected_device(d, s, t)) for d, s, t in zip(drivers, specs, tracks))
        await sess.close()
        return ok and ndrv >= 1 and ncli >= 1 and nprops >= 2, ndrv, ncli
    finally:
        tap.close()


def _as_expected(view_props):
    """Turn a mirror view (client_view shape) into the 'expected' shape so that two mirrors can be compared."""
    out = {}
    for name, p in view_props.items():
        out[name] = {"kind": p["kind"], "state": p["state"], "label": p["label"], "group": p["group"],
                     "elements": [{"name": n, "label": lv[0], "raw": lv[1], "format": "%s"} for n, lv in p["elements"].items()]}
    return out


def _text_spec(name):
    el = {"attr": "e0", "name": "E0", "label": None, "default": "old", "enabled": True}
    vec = {"attr": "t", "kind": "Text", "name": "TXT", "label": None, "state": None, "perm": None, "timeout": None, "enabled": True, "elements": [el]}
    return {"name": name, "levels": [{"groups": [{"attr": "g", "name": "G", "enabled": True, "vectors": [vec]}]}]}


def reactive_order_case(ctx, reactive_first):
    """Three in-process clients (snooping clients of three drivers) follow device CAM.  One of them REACTS to a definition of
    CAM.TXT by writing a new value from inside its callback (a driver that corrects a setting of the device it snoops as soon
    as it sees it).  Afterwards every client must hold the device's value.  `reactive_first`: the reacting client was registered
    with the router before the others (the re-entrant update then overtakes the definition on its way to the later ones)."""
    from indi.client import events as CE
    from indi.routing import Router
    router = Router()
    cam = D.build(_text_spec("CAM"))(router=router)
    others = [D.build(_text_spec(f"G{k}"))(router=router) for k in range(3)]
    order = [0, 1, 2] if reactive_first else [1, 2, 0]
    clients = {}
    for k in order:
        clients[k] = others[k].snoop_device("NOBODY")       # creates and registers the snooping client, follows nothing yet
    wrote = [0]

    def react(event):
        if event.vector.name == "TXT" and not wrote[0]:
            wrote[0] += 1
            event.vector.get_element("E0").value = "new"
            event.vector.submit()
    clients[0].onevent(callback=react, device="CAM", event_type=CE.DefinitionUpdate)
    clients[2 if reactive_first else 1].handshake(device="CAM")       # somebody asks: CAM defines itself to everybody
    ctx.count("reactive_in_process_client_cases")
    dev = D.element_of(cam, "g", "t", "e0").value
    case = {"mode": "reactive-order", "reactive_first": reactive_first}
    if not wrote[0] or dev != "new":
        ctx.violate("reactive-in-process-client:write-from-a-definition-callback-not-applied", f"the reacting client wrote {wrote[0]} time(s), device holds {dev!r}", case)
        return
    for k in (1, 2):
        held = stack.client_view(clients[k]).get("CAM", {}).get("TXT", {}).get("elements", {}).get("E0", (None, None))[1]
        if held != dev:
            where = "earlier" if reactive_first else "later"
            ctx.violate(f"in-process-client:stale-value:after-a-write-from-inside-a-definition-callback-of-an-{where}-registered-client",
                        f"device CAM.TXT.E0 is {dev!r}; an in-process client registered {'after' if reactive_first else 'before'} the reacting one holds {held!r} "
                        f"(it was handed the update first and the older definition afterwards)", case)
            return


def one_case(ctx, case):
    if case.get("mode") == "reactive-order":
        reactive_order_case(ctx, bool(case["reactive_first"]))
        return
    nontrivial, ndrv, ncli = asyncio.run(session(ctx, case))
    ctx.case({"i": case["i"], "specs": case["specs"], "modes": [case["mode_c2s"], case["mode_s2c"]], "nops": case["nops"]},
             nontrivial=bool(nontrivial),
             sample={"devices": [(s["name"], len(s["levels"]), [v["name"] + ":" + v["kind"] for _, v in D.vectors_of(s)]) for s in case["specs"]],
                     "driver_ops": ndrv, "client_ops": ncli, "fragmentation": [case["mode_c2s"], case["mode_s2c"]]})


def run(ctx):
    if ctx.mine(0):
        reactive_order_case(ctx, False)
        reactive_order_case(ctx, True)
    n = 800 if not ctx.thorough else 30000
    for i in range(n):
        if not ctx.mine(i):
            continue
        one_case(ctx, gen_case(ctx, i))
        if ctx.enough():
            break


def replay(ctx, case):
    one_case(ctx, case)
