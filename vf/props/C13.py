"""C13 — the parser accepts only protocol-conformant messages."""
from __future__ import annotations

import copy

from vf.gen import messages as G
from vf.ref.conform import nonconformities
from vf.ref.view import view_abstract, view_lib

LEVEL = "exploration"
RULE = ("valid abstract messages of every kind, each constrained field replaced in turn by absent / empty / wrong-case / "
        "foreign-vocabulary / Python-internal-looking / padded / random strings, every required attribute removed, children "
        "replaced by every other part kind, unknown tags, attributes named like constructor parameters, non-ASCII digits and "
        "malformed numbers; after importing EVERY module of the library, every tag the part / message registries know is offered as a child of "
        "every vector kind it does not belong to (and every non-protocol message tag as a message); written as XML text and given to IndiMessage.from_string; thorough adds random character-level "
        "mutations of valid wire text. A raise is always acceptable; a returned message is judged by an independent "
        "DTD-conformance validator over its public attributes. non-trivial = the input is non-conformant by that validator; "
        "distinct = hash(XML text)")
ASSUMPTIONS = ["an absent number value is tolerated (drivers publish unset numbers); min/max/step/format are unconstrained",
               "the top-level oneLight kind the library registers is treated as a kind with a State value"]
QUICK_SHARDS = 2
REQUIRED_EVENTS = ["hostile_inputs", "rejected", "parsed_and_validated", "registry_audit_inputs", "library_modules_imported"]

PYTHONISH = ["None", "indi.message.const", "__main__", "State", "__doc__", "__module__", "builtins", "const",
             "indi.message", "True", "False", "0", "1", "<class 'str'>", "object", "NoneType"]
ALL_VOCAB = G.STATES + G.PERMS + G.RULES + G.SWITCH + G.BLOBEN
BAD_NUMBERS = ["", "abc", "١٢٣", "１２.５", "1,5", "1:2:3:4", "1e", "--1", "1..2", "0x10", "١:٣٠", "1:٣٠",
               "12:", ":30", "1 2 3 4", "NaN(x)", "1:30:", "٣", "1.5f", "1_000", "+-1", "1:-30"]


def replacements(rng, cur, vocab):
    out = [("absent", None), ("empty", "")]
    if cur:
        out += [("lower", str(cur).lower()), ("upper", str(cur).upper()), ("swapcase", str(cur).swapcase())]
        out += [("lpad", " " + str(cur)), ("rpad", str(cur) + " "), ("nl", str(cur) + "\n"), ("dup", str(cur) * 2)]
    for v in ALL_VOCAB:
        if v not in vocab:
            out.append(("foreign:" + v, v))
    for v in PYTHONISH:
        out.append(("python:" + v, v))
    out.append(("random", G.gen_string(rng, allow_empty=False)))
    return out


def variants(rng, am):
    spec = G.GRAMMAR[am["tag"]]
    for a, vocab in spec["vocab"].items():
        for label, v in replacements(rng, am["attrs"].get(a), vocab):
            m = copy.deepcopy(am)
            if v is None:
                m["attrs"].pop(a, None)
            else:
                m["attrs"][a] = v
            yield f"{a}={label}", m
    if spec["text"] == "bloben":
        for label, v in replacements(rng, am["text"], G.BLOBEN):
            m = copy.deepcopy(am)
            m["text"] = v
            yield f"text={label}", m
        m = copy.deepcopy(am)
        m["text"] = None
        m["attrs"]["value"] = "Sometimes"
        yield "text-as-attribute-bad", m
    for a in spec["req"]:
        m = copy.deepcopy(am)
        m["attrs"].pop(a, None)
        yield f"required-removed:{a}", m
    for extra in ("children", "value", "junk", "self", "cls", "args", "kwargs"):
        m = copy.deepcopy(am)
        m["attrs"][extra] = "x"
        yield f"param-named-attribute:{extra}", m
    # a field that is constrained on OTHER kinds, given to this one with a word outside its vocabulary (perm on a light definition,
    # rule on a text definition, state on getProperties ...): ignored is fine, kept with that word is not
    for a in ("state", "perm", "rule"):
        if a not in spec["vocab"]:
            for v in ("bogus", "RW", "None"):
                m = copy.deepcopy(am)
                m["attrs"][a] = v
                yield f"foreign-field:{a}={v}", m
    m = copy.deepcopy(am)
    m["tag"] = am["tag"] + "X"
    yield "unknown-tag", m
    m = copy.deepcopy(am)
    m["tag"] = am["tag"].upper()
    yield "tag-wrong-case", m
    for itag in ("indiMessage", "defVector", "defWritableVector", "setVector", "newVector", "indiMessagePart", "defIndiMessagePart"):
        m = copy.deepcopy(am)
        m["tag"] = itag
        yield f"internal-class-tag:{itag}", m
    kids = am.get("children")
    if kids is None:
        # a kind without children given children of each part kind
        for ptag in G.PARTS:
            m = copy.deepcopy(am)
            m["children"] = [G.gen_part(rng, ptag, "c")]
            yield f"unexpected-child:{ptag}", m
        return
    ctag = spec["child"]
    kind = G.PARTS[ctag]["value"]
    if not kids:
        am = copy.deepcopy(am)
        am["children"] = kids = [G.gen_part(rng, ctag, "only")]
    for i in range(len(kids)):
        for ptag in G.PARTS:
            if ptag == ctag:
                continue
            m = copy.deepcopy(am)
            m["children"][i] = G.gen_part(rng, ptag, kids[i]["attrs"]["name"])
            yield f"child-kind:{ptag}@{i}", m
        m = copy.deepcopy(am)
        m["children"][i]["tag"] = "oneFoo"
        yield f"child-unknown-tag@{i}", m
        # tags that look like the library's own (abstract) class names
        for itag in ("defIndiMessagePart", "indiMessagePart", "oneIndiMessagePart", "indiMessage", "defVector", "defWritableVector",
                     "setVector", "newVector", "message", "oneLight", "object", "type"):
            m = copy.deepcopy(am)
            m["children"][i]["tag"] = itag
            yield f"child-internal-class-tag:{itag}@{i}", m
        for a in G.PARTS[ctag]["req"]:
            m = copy.deepcopy(am)
            m["children"][i]["attrs"].pop(a, None)
            yield f"child-required-removed:{a}@{i}", m
        if kind in ("Switch", "Light"):
            vocab = G.SWITCH if kind == "Switch" else G.STATES
            for label, v in replacements(rng, kids[i]["text"], vocab):
                m = copy.deepcopy(am)
                m["children"][i]["text"] = v
                yield f"child-value={label}@{i}", m
        if kind == "Number":
            for v in BAD_NUMBERS + PYTHONISH[:6] + [G.gen_string(rng, allow_empty=False)]:
                m = copy.deepcopy(am)
                m["children"][i]["text"] = v
                yield f"child-number={v!r}@{i}", m
        for extra in ("value", "children"):
            m = copy.deepcopy(am)
            m["children"][i]["attrs"][extra] = "Maybe"
            m["children"][i]["text"] = None
            yield f"child-param-named-attribute:{extra}@{i}", m


def value_class(v):
    if v is None:
        return "absent-value"
    if v in ("indi.message.const", "__main__", "builtins"):
        return "python-internal-string"
    if not str(v).isascii():
        return "non-ascii"
    if str(v).strip() != str(v):
        return "padded"
    return "other-string"


def missing_required(text):
    """[(where, attribute)] required by the DTD and absent from the input element itself."""
    from vf.ref.view import view_xml
    try:
        tag, attrs, _, kids = view_xml(text)
    except Exception:
        return []
    out = []
    spec = G.GRAMMAR.get(tag)
    if spec is None:
        return []
    have = dict(attrs)
    for a in spec["req"]:
        if a not in have:
            out.append(("message", a))
    for i, k in enumerate(kids or ()):
        pspec = G.PARTS.get(k[0])
        if pspec is None:
            continue
        khave = dict(k[1])
        for a in pspec["req"]:
            if a not in khave:
                out.append((f"child-{'first' if i == 0 else 'later'}", a))
    return out


def judge(ctx, text, label, case, am=None):
    import indi.message as M
    try:
        res = M.IndiMessage.from_string(text)
    except Exception:
        ctx.count("rejected")
        return
    except BaseException as e:  # pragma: no cover
        ctx.violate("parser-raises-baseexception", repr(e), case, {"text": text})
        return
    ctx.count("parsed_and_validated")
    try:
        v = view_lib(res)
    except Exception as e:
        ctx.violate("result-not-inspectable", f"from_string returned {res!r} which cannot be inspected: {e!r}", case, {"text": text})
        return
    bad = nonconformities(v)
    if not bad:
        # the returned object may have been completed from somewhere else: required attributes are judged on the INPUT
        missing = missing_required(text)
        if missing:
            where, attr = missing[0]
            ctx.violate(f"accepts-input-lacking-required-attribute:{attr}:{where}",
                        f"from_string accepted an element whose {where} lacks the required attribute {attr!r} (the returned message has it: {v!r:.300})",
                        dict(case, pert=label), {"text": text, "missing": missing})
            return
    if bad:
        what, val = bad[0]
        ctx.violate(f"accepts-nonconformant:{what}:{value_class(val)}",
                    f"from_string accepted a message with {what} = {val!r}", dict(case, pert=label),
                    {"text": text, "nonconformities": bad})
    else:
        ctx.count("accepted_conformant")


def one_case(ctx, case):
    rng = ctx.rng("case", case["i"])
    if case.get("mode") == "text":
        judge(ctx, case["text"], "replayed-text", case)
        return
    am = G.gen_message(rng, tag=case["tag"], nchildren=case.get("nchildren"))
    nv = 0
    for label, m in variants(rng, am):
        hostile = bool(nonconformities(view_abstract(m)))
        sp = G.spellings(rng, 1)[0] if rng.random() < 0.3 else None
        text = G.write_xml(m, sp)
        nv += 1
        ctx.count("hostile_inputs" if hostile else "benign_variants")
        ctx.seen("perturbation_labels", label.split("@")[0].split("=")[0] + "|" + am["tag"])
        judge(ctx, text, label, case, m)
        ctx.case(text, nontrivial=hostile, sample={"perturbation": label, "xml": text})
    if case.get("mutate"):
        wire = G.write_xml(am)
        alphabet = list("<>/=\"' &;:#") + ["On", "Off", "Ok", "Idle", "state", "None", "one", "def", "\x00", "é", "٣"]
        for j in range(case["mutate"]):
            s = list(wire)
            for _ in range(rng.choice([1, 1, 2, 3])):
                pos = rng.randrange(len(s) + 1)
                op = rng.random()
                if op < 0.35 and s:
                    s[min(pos, len(s) - 1)] = rng.choice(alphabet)
                elif op < 0.65 and s:
                    del s[min(pos, len(s) - 1)]
                elif op < 0.85:
                    s.insert(pos, rng.choice(alphabet))
                elif s:
                    a, b = sorted((rng.randrange(len(s)), rng.randrange(len(s))))
                    s[a:b] = []
            text = "".join(s)
            ctx.count("random_mutations")
            judge(ctx, text, "mutation", dict(case, mode="text", text=text))
            ctx.case(text, nontrivial=True)


def registry_audit(ctx):
    """The parser resolves tags through the classes that EXIST in the process.  Import every module of the library, then offer
    every tag the registries know beyond the protocol's own, as a message and as a child of every vector kind."""
    import importlib
    import pkgutil
    import indi
    import indi.message as M
    from indi.message.base import IndiMessagePart
    for mi in pkgutil.walk_packages(indi.__path__, "indi."):
        try:
            importlib.import_module(mi.name)
            ctx.count("library_modules_imported")
        except Exception:
            ctx.count("library_modules_not_importable")
    part_tags, msg_tags = set(), set()
    for c in IndiMessagePart._all_subclasses():
        try:
            part_tags.add(c.tag_name())
        except Exception:
            pass
    for c in M.IndiMessage.all_message_classes():
        try:
            msg_tags.add(c.tag_name())
        except Exception:
            pass
    ctx.notes["tags_known_to_the_part_registry"] = sorted(part_tags)
    ctx.notes["tags_known_to_the_message_registry"] = sorted(msg_tags)
    extra_parts = sorted(part_tags - set(G.PARTS))
    extra_msgs = sorted(msg_tags - set(G.ALL_TAGS) - {"oneLight"})
    attrs = 'name="x" size="3" format=".b" min="0" max="1" step="1" label="l"'
    n = 0
    for tag in extra_parts + sorted(set(G.PARTS)):
        for text in ("On", "Ok", "1", "QUJD", ""):
            for vtag in [t for t in G.ALL_TAGS if t.endswith("Vector")]:
                if tag in G.PARTS and G.GRAMMAR[vtag]["child"] == tag:
                    continue
                vattrs = 'device="D" name="P" state="Ok" perm="rw" rule="AnyOfMany"'
                xml = f'<{vtag} {vattrs}><{tag} {attrs}>{text}</{tag}></{vtag}>'
                n += 1
                ctx.count("hostile_inputs")
                judge(ctx, xml, f"registry-part-tag:{tag}", {"i": -1000 - n, "mode": "text", "text": xml})
    for tag in extra_msgs:
        for body in ("", "On", f'<oneText name="x">v</oneText>'):
            xml = f'<{tag} device="D" name="P" state="Ok" perm="rw" version="1.7" uid="u">{body}</{tag}>'
            n += 1
            ctx.count("hostile_inputs")
            judge(ctx, xml, f"registry-message-tag:{tag}", {"i": -5000 - n, "mode": "text", "text": xml})
    ctx.count("registry_audit_inputs", n)


def run(ctx):
    if ctx.mine(0):
        registry_audit(ctx)
    reps = 2 if not ctx.thorough else 200
    i = 0
    for rep in range(reps):
        for tag in G.ALL_TAGS:
            i += 1
            if not ctx.mine(i):
                continue
            nchildren = None
            if G.GRAMMAR[tag]["child"]:
                nchildren = [1, 2, 3, 0][rep % 4]
            one_case(ctx, {"i": i, "tag": tag, "nchildren": nchildren, "mutate": 0 if not ctx.thorough else 300})
    # the top-level oneLight kind
    for j, v in enumerate([None, "", "ok", "indi.message.const", "On", "Ok"]):
        text = '<oneLight name="x">%s</oneLight>' % v if v is not None else '<oneLight name="x"/>'
        ctx.count("hostile_inputs")
        judge(ctx, text, "oneLight-top-level", {"i": -1 - j, "mode": "text", "text": text})


def replay(ctx, case):
    one_case(ctx, case)
