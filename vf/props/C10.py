"""C10 — number rendering and parsing are mutually inverse and follow INDI conventions."""
from __future__ import annotations

import itertools
import math

from vf.ref import number as R

LEVEL = "exploration"
RULE = ("render: formats %[-+ 0#]*[w][.p]{d,f} (all 32 flag subsets x widths {-,1,6,12} x precisions {-,0,2,6}) and "
        "%[w].{3,5,6,8,9}m x values (seeded reals in [-1e9,1e9], negatives in (-1,0), within half a unit of every field carry, "
        "integers, width overflow) plus the resolution grid of every sexagesimal format on [-360,360] degrees (quick: strided, "
        "thorough: complete for .3m/.5m/.6m, dense sub-grids for .8m/.9m); each rendering is checked against the library's own "
        "validator (OneNumber/DefNumber), an independent INDI-convention parser, and str_to_num. parse: every string of the INDI "
        "number grammar built from sign x degree field x [sep minute field [sep second field]] with sep in ':' ';' blank, against "
        "every format family. device layer: seeded 40-step histories on the four Number elements of one long-lived generated driver - values "
        "stored by assignment, client newNumberVector, reset_value and a refreshing Read handler, rendered in between by "
        "to_set_message / to_def_message / getProperties / a state change / an update caused by another element - every rendered text "
        "must denote the element's current value to within the format's resolution; a third of the readings that go through reset_value / a Read handler are handed in as Decimal, Fraction or a float subclass and the rendering is judged against the number handed in. non-trivial = every case (each is a distinct (format,value) or (format,text) pair); "
        "distinct = hash of that pair")
ASSUMPTIONS = ["tolerance = the format's resolution + a few ulp, so rounding and truncating renderers both pass",
               "non-canonical fields such as 1:60 are accepted; exponent notation and non-finite values are not demanded",
               "a leading '+' is not demanded of the parser (only what the library itself renders with the + flag)"]
QUICK_SHARDS = 2
REQUIRED_EVENTS = ["renderings", "validator_checks", "parse_checks", "grid_points", "device_layer_renderings", "device_layer_histories", "device_layer_values_of_huge_magnitude", "renderings_of_decimal_fraction_or_subclass_values", "client_number_texts_stored", "python_numbers_written_in_process"]

SEXA = [3, 5, 6, 8, 9]


def printf_formats():
    out = []
    flagsets = [""] + ["".join(c) for r in range(1, 6) for c in itertools.combinations("-+ 0#", r)]
    for fl in flagsets:
        for w in ("", "1", "6", "12"):
            for p in (None, "0", "2", "6"):
                for conv in "df":
                    out.append("%" + fl + w + ("" if p is None else "." + p) + conv)
    return out


def sexa_formats():
    return ["%" + w + "." + str(f) + "m" for f in SEXA for w in ("", "6", "10", "12")]


def mech_of_value(v, fmt):
    m = []
    if v < 0:
        m.append("negative")
    if -1 < v < 0:
        m.append("in(-1,0)")
    return "+".join(m) or "nonnegative"


def fmt_class(fmt):
    mm = R._SEXA_FMT.match(fmt)
    if mm:
        return "sexagesimal" + ("-width" if mm.group(1) else "")
    mm = R._PRINTF.match(fmt)
    flags, width, prec, conv = mm.groups()
    c = "printf-" + conv
    if "+" in flags:
        c += "-plusflag"
    elif " " in flags:
        c += "-spaceflag"
    elif width:
        c += "-width"
    return c


def check_render(ctx, fmt, v, lib):
    num_to_str, str_to_num, OneNumber, DefNumber = lib
    case = {"mode": "render", "fmt": fmt, "v": v}
    ctx.count("renderings")
    try:
        text = num_to_str(v, fmt)
    except Exception as e:
        ctx.violate(f"render-raises:{fmt_class(fmt)}", f"num_to_str({v!r}, {fmt!r}) raises {e!r}", case)
        return
    if not isinstance(text, str):
        ctx.violate("render-not-text", f"num_to_str returned {text!r}", case)
        return
    tol = R.tolerance(fmt, v)
    ctx.count("validator_checks")
    try:
        OneNumber(name="n", value=text)
        DefNumber(name="n", format=fmt, min=0, max=0, step=0, value=text)
    except Exception as e:
        ctx.violate(f"validator-rejects-rendering:{fmt_class(fmt)}",
                    f"the library renders {v!r} with {fmt!r} as {text!r}, which its own validator rejects", case, {"text": text})
        return
    ref = R.parse(text)
    if ref is None:
        ctx.violate(f"rendering-not-indi-syntax:{fmt_class(fmt)}", f"{text!r} (from {v!r}, {fmt!r}) is not INDI number syntax", case,
                    {"text": text})
        return
    if not abs(ref - v) <= tol:
        ctx.violate(f"rendering-denotes-other-value:{fmt_class(fmt)}:{mech_of_value(v, fmt)}",
                    f"{v!r} rendered with {fmt!r} is {text!r}, which denotes {ref!r} under the INDI conventions (|diff|={abs(ref - v):.6g} > {tol:.3g})",
                    case, {"text": text, "denotes": ref})
        return
    for t in (text, text.strip()):
        try:
            back = str_to_num(t, fmt)
        except Exception as e:
            ctx.violate(f"parse-rejects-own-rendering:{fmt_class(fmt)}", f"str_to_num({t!r}, {fmt!r}) raises {e!r}", case, {"text": t})
            return
        if isinstance(back, bool) or not isinstance(back, (int, float)) or not abs(back - v) <= tol:
            ctx.violate(f"parse-of-rendering-differs:{fmt_class(fmt)}:{mech_of_value(v, fmt)}",
                        f"{v!r} -> {t!r} -> {back!r} with {fmt!r}", case, {"text": t, "back": back})
            return


def check_parse(ctx, s, fmt, lib):
    num_to_str, str_to_num, OneNumber, DefNumber = lib
    case = {"mode": "parse", "fmt": fmt, "s": s}
    ctx.count("parse_checks")
    want = R.parse(s)
    assert want is not None, s
    shape = text_shape(s)
    try:
        OneNumber(name="n", value=s)
    except Exception as e:
        ctx.violate(f"validator-rejects-indi-number:{shape}", f"OneNumber rejects the INDI number text {s!r}", case)
        return
    try:
        got = str_to_num(s, fmt)
    except Exception as e:
        ctx.violate(f"parse-rejects-indi-number:{shape}:{'sexa-format' if fmt.endswith('m') else 'printf-format'}",
                    f"str_to_num({s!r}, {fmt!r}) raises {e!r}", case)
        return
    if isinstance(got, bool) or not isinstance(got, (int, float)) or not abs(got - want) <= 1e-9 * max(1.0, abs(want)):
        ctx.violate(f"parse-misreads:{shape}:{'negative' if s.strip().startswith('-') else 'nonnegative'}",
                    f"str_to_num({s!r}, {fmt!r}) = {got!r}, INDI reads {want!r}", case, {"got": got, "want": want})


def text_shape(s):
    t = s.strip().lstrip("-")
    seps = [c for c in t if c in ":; "]
    if not seps:
        return "decimal" if "." in t else "integer"
    kind = {":": "colon", ";": "semicolon", " ": "blank"}
    sep = "+".join(sorted({kind[c] for c in seps}))
    fields = t.replace(";", ":").replace(" ", ":").split(":")
    extra = []
    if len(fields[1].split(".")[0]) == 1:
        extra.append("1digit-min")
    if len(fields) == 2 and "." in fields[1]:
        extra.append("frac-min")
    if len(fields) == 3 and len(fields[2].split(".")[0]) == 1:
        extra.append("1digit-sec")
    return f"sexa{len(fields)}-{sep}" + ("-" + "-".join(extra) if extra else "")


def grammar_strings():
    ints = ["0", "5", "12", "07", "360"]
    fracs = ["", ".", ".5", ".25", ".0"]
    seps = [":", ";", " "]
    mins = ["0", "5", "00", "30", "59", "07"]
    for sign in ("", "-"):
        for i in ints:
            for f in fracs:
                yield sign + i + f
            for s1 in seps:
                for m in mins:
                    for f in fracs:
                        yield sign + i + s1 + m + f
                    for s2 in seps:
                        for sec in mins:
                            for f in fracs:
                                yield sign + i + s1 + m + s2 + sec + f
        yield sign + ".5"
        yield sign + ".25"


def special_values(rng, fmt):
    res = R.resolution(fmt)
    vals = [0.0, 1.0, -1.0, 0.5, -0.5, -0.25, -0.75, -0.0001, 12.2625, -12.2625, 359.9999999, -359.9999999,
            1e9, -1e9, 123456789.125, -99999.5, 59.5 / 60, 1 + 59.5 / 60, -(59.5 / 60), 59.95 / 3600 + 59 / 60,
            -(59.95 / 3600 + 59 / 60), 59.995 / 3600 + 59 / 60 + 7, -(59.995 / 3600 + 59 / 60 + 7),
            2 - res / 2, -(2 - res / 2), 2 - res / 2 * 0.99, 2 - res * 0.51, -2 + res * 0.51, 10 - 1e-12, -10 + 1e-12,
            23.999999999, -23.999999999, 1 / 3, -1 / 3, 179.99999, -179.99999, 7, -7, 1000000, 0.000001, -0.000001]
    for _ in range(30):
        vals.append(rng.uniform(-1e9, 1e9))
        vals.append(rng.uniform(-1, 0))
        vals.append(rng.uniform(-360, 360))
        vals.append(float(rng.randrange(-100000, 100000)))
        k = rng.randrange(-360 * 60, 360 * 60)
        vals.append(k / 60 + rng.choice([-1, 1]) * rng.uniform(0, res))
    return vals


def grids(ctx):
    """(fmt, numerator range, denominator, stride): value = k/den."""
    t = ctx.thorough
    return [
        ("%.3m", 60, 1 if t else 1),
        ("%.5m", 600, 1 if t else 7),
        ("%.6m", 3600, 1 if t else 41),
        ("%.8m", 36000, 7 if t else 409),
        ("%.9m", 360000, 13 if t else 4099),
    ]


def lib():
    from indi.device.values import num_to_str, str_to_num
    from indi.message.def_parts import DefNumber
    from indi.message.one_parts import OneNumber
    return num_to_str, str_to_num, OneNumber, DefNumber


def run(ctx):
    L = lib()
    fmts = printf_formats() + sexa_formats()
    ctx.notes["formats"] = len(fmts)
    n = 0
    for fi, fmt in enumerate(fmts):
        if not ctx.mine(fi):
            continue
        rng = ctx.rng("fmt", fmt)
        vals = special_values(rng, fmt)
        if not ctx.thorough:
            vals = vals[:41] + vals[41::3]
        else:
            for _ in range(40):
                vals += special_values(rng, fmt)[41:]
        for v in vals:
            check_render(ctx, fmt, v, L)
            ctx.case_fast(("r", fmt, v))
        ctx.seen("format_classes", fmt_class(fmt))
        if fi % 97 == 0:
            try:
                ctx.sample({"format": fmt, "value": vals[9], "rendered": L[0](vals[9], fmt)})
            except Exception as e:
                ctx.sample({"format": fmt, "value": vals[9], "raised": repr(e)})
    # resolution grids on [-360, 360]
    gi = 0
    for fmt, den, stride in grids(ctx):
        lo, hi = -360 * den, 360 * den
        for k in range(lo, hi + 1, stride):
            gi += 1
            if not ctx.mine(gi):
                continue
            v = k / den
            check_render(ctx, fmt, v, L)
            ctx.count("grid_points")
            ctx.case_fast(("g", fmt, k))
        ctx.notes[f"grid {fmt}"] = f"k/{den} for k in [{lo},{hi}] step {stride}"
    # the same through Number elements of a long-lived driver
    for i in range(300 if not ctx.thorough else 20000):
        if ctx.mine(i):
            device_layer(ctx, i, 40)
    # parsing
    pf = ["%f", "%d", "%6.2f", "%.3m", "%.5m", "%.6m", "%.8m", "%10.9m"]
    for si, s in enumerate(grammar_strings()):
        if not ctx.mine(si):
            continue
        if not ctx.thorough and si % 3:
            continue
        for fmt in pf:
            check_parse(ctx, s, fmt, L)
            ctx.case_fast(("p", fmt, s))
        ctx.seen("text_shapes", text_shape(s))
        if si % 4001 == 0:
            ctx.sample({"text": s, "denotes": R.parse(s)})


# ---- through the device layer: what a Number element puts into defNumberVector / setNumberVector --------------------------

DEVICE_FORMATS = ["%.3m", "%.5m", "%.6m", "%9.6m", "%.8m", "%.9m", "%f", "%8.3f", "%.0f", "%d", "%+.2f", "%010.4f"]
STORES = ["assign", "client-write", "in-process-client-write", "reset_value", "read-handler-refresh", "assign-other-element"]
RENDERS = ["to_set_message", "to_def_message", "getProperties", "state-change", "assign-other-element"]


def device_layer(ctx, i, steps):
    """One long-lived driver; every element takes a sequence of values through every way a driver or a client stores one, and is
    rendered in between through every way a vector reaches the wire; each rendered text must denote the element's CURRENT value."""
    from indi import message as M
    from indi.message import one_parts
    from indi.routing import Router
    from vf import devmon
    from vf.gen import drivers as D
    rng = ctx.rng("device", i)
    fmts = rng.sample(DEVICE_FORMATS, 4)
    els = [{"attr": f"e{k}", "name": f"N{k}", "label": None, "default": None, "enabled": True, "format": f, "min": -1e9, "max": 1e9, "step": 0}
           for k, f in enumerate(fmts)]
    vspec = {"attr": "num", "kind": "Number", "name": "NUM", "label": None, "state": None, "perm": None, "timeout": None, "enabled": True, "elements": els}
    spec = {"name": "DEV", "levels": [{"groups": [{"attr": "g", "name": "G", "enabled": True, "vectors": [vspec]}]}]}
    hardware = {}

    def leaf_hook(ns, defs):
        from indi.device import events
        from indi.device.events import on
        sources = [defs["g"].vectors["num"].elements[f"e{k}"] for k in range(4)]

        def refresh(self, event):
            name = event.element.name
            if name in hardware:
                event.element.reset_value(hardware.pop(name))
        ns["refresh"] = on(sources, events.Read)(refresh)

    router = Router()
    drv = D.build(spec, leaf_hook=leaf_hook)(router=router)
    rec = devmon.RecClient()
    router.register_client(rec)
    vec = D.vector_of(drv, "g", "num")
    elem = [D.element_in(vec, f"e{k}") for k in range(4)]
    guide = D.build(dict(spec, name="GUIDE"))(router=router)
    snoop = guide.snoop_device("DEV")
    history = []

    handed = {}          # element index -> the real number the driver last handed in as some other numeric type than int / float
    trng = ctx.rng("device-types", i)

    class Float32(float):
        """a float subclass, as numpy.float64 is"""

    def typed(v):
        from decimal import Decimal
        from fractions import Fraction
        t = trng.choice(["Decimal", "Fraction", "float-subclass"])
        ctx.seen("numeric_types_handed_in", t)
        if t == "Decimal":
            return Decimal(repr(float(v)))
        if t == "Fraction":
            return Fraction(float(v))
        return Float32(v)

    def judge(children, how):
        for k, c in enumerate(children):
            cur = elem[k]._value
            ctx.count("device_layer_renderings")
            if cur is None:
                continue
            if k in handed:
                # a reading handed in as Decimal / Fraction / float subclass: the text must denote THAT number, whatever was kept of it
                ctx.count("renderings_of_decimal_fraction_or_subclass_values")
                cur = handed[k]
            ref = R.parse(str(c.value)) if c.value is not None else None
            tol = R.tolerance(fmts[k], cur)
            if ref is None or not abs(ref - cur) <= tol:
                ctx.violate(f"element-rendering-denotes-other-value:{how}:after-{history[-1][0] if history else 'nothing'}",
                            f"element N{k} (format {fmts[k]!r}) holds {cur!r} but {how} carries {c.value!r}", {"mode": "device", "i": i, "steps": steps},
                            {"history": history[-8:]})
                return False
        return True

    for step in range(steps):
        k = rng.randrange(4)
        v = rng.choice(special_values(rng, fmts[k])[:41]) if rng.random() < 0.4 else round(rng.uniform(-400, 400), rng.choice([0, 2, 4, 7]))
        if "d" in fmts[k] and rng.random() < 0.5:
            v = int(v)
        if trng.random() < 0.06:
            # magnitudes whose plain (non-exponent) rendering runs to 60..300 digits: "%f" % 1e80 is a perfectly good INDI number
            v = trng.choice([1e57, -3.5e80, 1e120, -1e300, 2.5e64])
            ctx.count("device_layer_values_of_huge_magnitude")
        store = rng.choice(STORES)
        history.append((store, k, v))
        ctx.seen("stores", store)
        handed.pop(k if store != "assign-other-element" else (k + 1) % 4, None)
        if store in ("reset_value", "read-handler-refresh") and trng.random() < 0.35:
            v = typed(v)
            handed[k] = float(v)
            history[-1] = (store, k, repr(v))
        def _do():
            if store == "assign":
                elem[k].value = v
            elif store == "client-write":
                # any INDI number notation may be sent to any format; the element must then hold the value the text denotes
                text = rng.choice([repr(float(v)), repr(float(v)), "%.4f" % v, "%d:%02d:%02d" % (abs(int(v)), rng.randrange(60), rng.randrange(60)),
                                   "-0.5", "2.7", "1e-1", "-%d %02d" % (abs(int(v)), rng.randrange(60)), "%d;%02d.5" % (abs(int(v)), rng.randrange(60))])
                router.process_message(M.NewNumberVector(device="DEV", name="NUM", children=(one_parts.OneNumber(name=f"N{k}", value=text),)), sender=rec)
                denoted = R.parse(text)
                stored = elem[k]._value
                ctx.count("client_number_texts_stored")
                if stored is None or isinstance(stored, bool) or not abs(stored - denoted) <= 1e-9 * max(1.0, abs(denoted)):
                    ctx.violate(f"element-stores-other-value-than-the-text-denotes:{fmt_class(fmts[k])}",
                                f"element N{k} (format {fmts[k]!r}) was sent {text!r} (= {denoted!r}) and holds {stored!r}",
                                {"mode": "device", "i": i, "steps": steps}, {"history": history[-8:]})
                    return False
            elif store == "in-process-client-write":
                # a snooping driver's client hands the router a message OBJECT whose oneNumber carries a Python number, not text
                pv = rng.choice([0, 0.0, -0.0, 1, -1, 0.5, v, int(v)])
                cel = snoop.get_device("DEV").get_vector("NUM").get_element(f"N{k}")
                cel.value = pv
                snoop.get_device("DEV").get_vector("NUM").submit()
                stored = elem[k]._value
                ctx.count("python_numbers_written_in_process")
                if stored is None or isinstance(stored, bool) or not abs(stored - pv) <= 1e-9 * max(1.0, abs(pv)):
                    ctx.violate(f"element-stores-other-value-than-the-number-sent:{'zero' if pv == 0 else 'nonzero'}",
                                f"element N{k} (format {fmts[k]!r}) was sent the Python number {pv!r} by an in-process client and holds {stored!r}",
                                {"mode": "device", "i": i, "steps": steps}, {"history": history[-8:]})
                    return False
            elif store == "reset_value":
                elem[k].reset_value(v)
            elif store == "read-handler-refresh":
                hardware[f"N{k}"] = v
            else:
                elem[(k + 1) % 4].value = v
            for how in rng.sample(RENDERS, rng.choice([1, 2, 2, 3])):
                ctx.seen("renders", how)
                del rec.received[:]
                if how == "to_set_message":
                    msgs = [vec.to_set_message()]
                elif how == "to_def_message":
                    msgs = [vec.to_def_message()]
                elif how == "getProperties":
                    router.process_message(M.GetProperties(version="1.7", device="DEV"), sender=rec)
                    msgs = [m for m in rec.received if type(m).__name__ == "DefNumberVector"]
                elif how == "state-change":
                    vec.state_ = rng.choice(["Ok", "Busy", "Idle", "Alert"])
                    msgs = [m for m in rec.received if type(m).__name__ == "SetNumberVector"]
                else:
                    handed.pop((k + 2) % 4, None)
                    elem[(k + 2) % 4].value = round(rng.uniform(-90, 90), 3)
                    msgs = [m for m in rec.received if type(m).__name__ == "SetNumberVector"]
                history.append((how,))
                for m in msgs:
                    if not judge(m.children, how):
                        return False
            return True
        try:
            if not _do():
                return
        except Exception as e:
            huge = isinstance(v, (int, float)) and abs(v) >= 1e50
            ctx.violate(f"device-layer-operation-raises:{type(e).__name__}:{'huge-magnitude' if huge else 'ordinary-value'}",
                        f"{history[-1]} on element N{k} (format {fmts[k]!r}) raised {e!r}", {"mode": "device", "i": i, "steps": steps}, {"history": history[-8:]})
            return
    ctx.count("device_layer_histories")
    ctx.case_fast(("device", i))


def exhaustive(ctx):
    return False


def replay(ctx, case):
    L = lib()
    if case["mode"] == "device":
        device_layer(ctx, case["i"], case["steps"])
    elif case["mode"] == "render":
        check_render(ctx, case["fmt"], case["v"], L)
    else:
        check_parse(ctx, case["s"], case["fmt"], L)
    ctx.case_fast(("replay",))
