"""C06 — a client's write changes exactly the addressed element, to the value sent."""
from __future__ import annotations

import asyncio
import itertools

from vf import devmon, fullstack, stack
from vf.gen import drivers as D
from vf.gen import histories as H
from vf.gen import messages as G
from vf.ref import driverview as DV
from vf.ref import number as RN

LEVEL = "exploration"
RULE = ("full in-memory stack (real Client -> serializer -> wire -> server ConnectionHandler -> framing -> Router -> driver) with 1..3 "
        "generated devices; per deployment several (device, property, non-empty element subset <= 3) targets are written through the "
        "public client API (assign + submit) with values over the element's domain: text over XML-representable characters, numbers "
        "as floats and as decimal / sexagesimal strings, both switch states, byte strings 0..300 bytes per element (whole message below the 2048-character junk threshold; larger payloads belong to C08); both wires fragmented. "
        "Monitors: snapshot of every element (and state/enabled flag) of every device before and after each write, the client's "
        "mirror after quiescence, escaped exceptions, task liveness; a stale-pending probe (device-side change between two "
        "submits). non-trivial = a write that reached a driver; distinct = hash(deployment, target, values, fragmentation)")
ASSUMPTIONS = ["permission (ro) is not enforced by indipy and not demanded", "only properties the client can see are written",
               "for OneOfMany/AtMostOne multi-switch writes any application order of the named switches is accepted"]
REQUIRED_EVENTS = ["writes_next_to_a_proxy_device", "sessions", "writes", "snapshots_compared", "targets_verified", "client_mirror_checks", "stale_pending_probes", "noop_write_probes",
                   "writes_Text", "writes_Number", "writes_Switch", "writes_BLOB", "multi_element_writes"]

QUICK_SHARDS = 4
MODES = ["whole", "1024", "1", "random", "small"]
SEXA = ["1:30", "-0:30", "12:15:30", "10 30", "5;15", "-12:15:45.5", "0:0:1", "359:59:59.99", "10:30.5", "-0:00.25", "7:5.75"]


def snapshot(drivers, specs):
    snap = {}
    for drv, spec in zip(drivers, specs):
        for ga, va, g, v in D.locate(spec):
            vec = D.vector_of(drv, ga, va)
            for e in v["elements"]:
                snap[(spec["name"], v["name"], e["name"])] = fullstack.norm_blob(D.element_in(vec, e["attr"]).value)
            snap[(spec["name"], v["name"], "<state>")] = vec.state_
            snap[(spec["name"], v["name"], "<enabled>")] = vec.enabled
    return snap


def gen_value(rng, kind):
    """(value to assign on the client, expected driver-side value)"""
    if kind == "Text":
        s = G.gen_string(rng, allow_empty=False)
        return s, s
    if kind == "Number":
        r = rng.random()
        if r < 0.35:
            v = float(rng.choice(H.NUMBER_VALUES))
            return v, v
        if r < 0.7:
            v = round(rng.uniform(-1000, 1000), rng.choice([0, 1, 3, 6]))
            s = repr(v)
            return s, v
        s = rng.choice(SEXA)
        return s, RN.parse(s)
    if kind == "Switch":
        v = rng.choice(G.SWITCH)
        return v, v
    if kind == "BLOB":
        from indi.device import values
        n = rng.choice([0, 1, 2, 3, 10, 100, 200, 300])   # three such elements stay below the 2048-character junk threshold (C08 owns larger ones)
        data = bytes(rng.randrange(256) for _ in range(n))
        fmt = rng.choice([".bin", ".fits", ".txt", ".fits.z"])
        return values.BLOB(data, fmt), ("blob", data, fmt)
    raise AssertionError(kind)


def switch_outcomes(rule, names, before, writes):
    """All final states reachable by applying the writes in some order."""
    outs = set()
    for perm in itertools.permutations(writes):
        cur = dict(before)
        for nm, val in perm:
            if rule == "AnyOfMany":
                cur[nm] = val
            elif val == "On":
                for k in cur:
                    cur[k] = "Off"
                cur[nm] = "On"
            else:
                if rule == "OneOfMany" and not any(v == "On" for k, v in cur.items() if k != nm):
                    cur[nm] = "On"
                else:
                    cur[nm] = "Off"
        outs.add(tuple(cur[k] for k in names))
    return outs


def gen_case(ctx, i):
    rng = ctx.rng("case", i)
    ndev = rng.choice([1, 2, 2, 3])
    specs = []
    for k in range(ndev):
        s = D.gen_spec(rng, name=f"DEV{k}", depth=rng.choice([1, 1, 2]))
        # make most things visible
        for lv in s["levels"]:
            for g in lv["groups"]:
                g["enabled"] = True
                for v in g["vectors"]:
                    if rng.random() < 0.8:
                        v["enabled"] = True
        specs.append(s)
    return {"i": i, "specs": specs, "nwrites": rng.choice([3, 6, 10]), "mode_c2s": rng.choice(MODES), "mode_s2c": rng.choice(MODES)}


async def session(ctx, case):
    from indi.routing import Router
    rng = ctx.rng("ops", case["i"])
    specs = case["specs"]
    tap = devmon.RouterTap(ctx, validate=False)
    try:
        router = Router()
        drivers = [D.build(s)(router=router) for s in specs]
        sess = stack.Session(router, seed=case["i"], mode_c2s=case["mode_c2s"], mode_s2c=case["mode_s2c"])
        client = await sess.make_client()
        if await sess.quiesce() < 0:
            ctx.violate("stall:handshake", "loop did not quiesce after the handshake", case)
            return 0
        ctx.count("sessions")
        byname = {s["name"]: (d, s) for d, s in zip(drivers, specs)}
        nw = 0
        for w in range(case["nwrites"]):
            view = stack.client_view(client)
            cands = []
            for d, props in view.items():
                for p, x in props.items():
                    if x["kind"] in ("Text", "Number", "Switch", "BLOB") and x["elements"]:
                        cands.append((d, p, x))
            if not cands:
                break
            d, p, x = rng.choice(cands)
            kind = x["kind"]
            names = list(x["elements"])
            chosen = rng.sample(names, rng.randrange(1, min(3, len(names)) + 1))
            chosen = [n for n in names if n in chosen]       # submit sends in definition order
            vec = client.get_device(d).get_vector(p)
            sent = {}
            for nm in chosen:
                if rng.random() < 0.2:
                    # the application changes its mind before submitting: the element is assigned twice, the LAST value counts
                    cv0, _ = gen_value(rng, kind)
                    vec.get_element(nm).value = cv0
                    ctx.count("elements_assigned_twice_before_a_submit")
                cv, ev = gen_value(rng, kind)
                vec.get_element(nm).value = cv
                sent[nm] = ev
            if rng.random() < 0.25:
                # meanwhile the driver withdraws ANOTHER property of that device and offers it again (a named delProperty and a
                # definition): nothing of what client and server agreed on about the device may get lost over that
                drv_, spec_ = byname[d]
                others = [(ga, va) for ga, va, g_, v_ in D.locate(spec_) if v_["name"] != p and v_["enabled"] and g_["enabled"]]
                if others:
                    ga, va = rng.choice(others)
                    ov = D.vector_of(drv_, ga, va)
                    if ov.enabled:
                        ov.enabled = False
                        ov.enabled = True
                        await sess.quiesce()
                        ctx.count("other_property_withdrawn_and_offered_again_before_a_write")
            before = snapshot(drivers, specs)
            tap.clear()
            wcase = dict(case, write=w, target=[d, p, chosen])
            ctx.count("writes")
            ctx.count("writes_" + kind)
            if len(chosen) > 1:
                ctx.count("multi_element_writes")
            try:
                vec.submit()
            except Exception as e:
                ctx.violate(f"client-submit-raises:{kind}:{type(e).__name__}", f"submit of {kind} values on {d}.{p} raised {e!r}", wcase)
                return nw
            if await sess.quiesce() < 0:
                ctx.violate("stall:after-write", "loop did not quiesce after a write", wcase)
                return nw
            if tap.escaped:
                m, e = tap.escaped[0]
                ctx.violate(f"exception-escapes-router:{kind}:{type(e).__name__}", f"write to {d}.{p}: {e!r} escaped Router.process_message", wcase)
                return nw
            failed = sess.mon.failed()
            if failed:
                ctx.violate(f"task-died:{failed[0][0].split('.')[-1]}:{kind}", f"{failed[0][0]} ended with {failed[0][1]}", wcase)
                return nw
            after = snapshot(drivers, specs)
            ctx.count("snapshots_compared")
            drv, spec = byname[d]
            vspec = next(v for _, _, _, v in D.locate(spec) if v["name"] == p)
            allowed = {(d, p, nm) for nm in chosen}
            if kind == "Switch" and vspec["rule"] != "AnyOfMany":
                allowed |= {(d, p, e["name"]) for e in vspec["elements"]}
            for key in after:
                if before[key] != after[key] and key not in allowed:
                    other = "other-device" if key[0] != d else ("other-property" if key[1] != p else "other-element")
                    ctx.violate(f"write-changed-{other}", f"write to {d}.{p}{chosen} changed {key}: {before[key]!r} -> {after[key]!r}", wcase)
                    return nw
            # targets hold the values sent
            if kind == "Switch":
                enames = [e["name"] for e in vspec["elements"]]
                outs = switch_outcomes(vspec["rule"], enames, {n: before[(d, p, n)] for n in enames}, [(n, sent[n]) for n in chosen])
                got = tuple(after[(d, p, n)] for n in enames)
                if got not in outs:
                    ctx.violate(f"switch-write-outcome:{vspec['rule']}", f"{d}.{p}: writing {sent} to {[before[(d, p, n)] for n in enames]} gave {got}, allowed {sorted(outs)}", wcase)
                    return nw
            else:
                for nm in chosen:
                    got = after[(d, p, nm)]
                    want = sent[nm]
                    if kind == "Number":
                        ok = got is not None and abs(float(got) - float(want)) <= 1e-9 * max(1.0, abs(float(want)))
                    elif kind == "BLOB":
                        ok = got == fullstack.norm_blob(want)
                    else:
                        ok = (got or None) == (want or None)
                    if not ok:
                        ctx.violate(f"target-does-not-hold-sent-value:{kind}", f"{d}.{p}.{nm}: sent {want!r}, device holds {got!r}", wcase)
                        return nw
            ctx.count("targets_verified", len(chosen))
            nw += 1
            # the client's own view shows the new values
            cv = stack.client_view(client).get(d, {}).get(p)
            ctx.count("client_mirror_checks")
            if cv is None:
                ctx.violate("client-lost-property-after-write", f"{d}.{p} vanished from the client's view", wcase)
                return nw
            for e in vspec["elements"]:
                if e["name"] not in cv["elements"]:
                    continue
                label, val = cv["elements"][e["name"]]
                raw = after[(d, p, e["name"])]
                if kind == "BLOB":
                    good = fullstack.norm_blob(val) == raw
                else:
                    good = DV.value_matches(kind, val, raw, e.get("format"))
                if not good:
                    ctx.violate(f"client-view-stale-after-write:{kind}", f"{d}.{p}.{e['name']}: client shows {val!r}, device holds {raw!r}", wcase)
                    return nw
            # stale-pending probe: a device-side change between two submits must survive the second submit
            if kind == "Text" and len(names) >= 2 and rng.random() < 0.5:
                first = chosen[0]
                other = next(n for n in names if n != first)
                eattr = next(e["attr"] for e in vspec["elements"] if e["name"] == first)
                ga, va = next((ga, va) for ga, va, _, v in D.locate(spec) if v["name"] == p)
                D.element_of(drv, ga, va, eattr).value = "device side"
                await sess.quiesce()
                vec.get_element(other).value = "second write"
                vec.submit()
                await sess.quiesce()
                ctx.count("stale_pending_probes")
                if D.element_of(drv, ga, va, eattr).value != "device side":
                    ctx.violate("second-submit-resent-old-value", f"{d}.{p}.{first} was overwritten by a later submit that did not name it", wcase)
                    return nw
                # the same with a write of the value the client ALREADY shows (a no-op write must not linger either)
                shown = vec.get_element(first).value
                if shown:
                    vec.get_element(first).value = shown
                    vec.submit()
                    await sess.quiesce()
                    D.element_of(drv, ga, va, eattr).value = "device side 2"
                    await sess.quiesce()
                    vec.get_element(other).value = "third write"
                    vec.submit()
                    await sess.quiesce()
                    ctx.count("noop_write_probes")
                    if D.element_of(drv, ga, va, eattr).value != "device side 2":
                        ctx.violate("noop-write-lingered-and-was-resent", f"{d}.{p}.{first}: a write of the value already shown was re-sent by a later submit "
                                                                       f"and overwrote the device's newer value", wcase)
                        return nw
        await sess.close()
        return nw
    finally:
        tap.close()


def snooping_writer_case(ctx, i):
    """The writer is a driver's in-process snooping client (Driver.snoop_device), which snooped the target device several times -
    whole device, single properties, in any order - before it writes: the target must hold the value sent, nothing else may
    change, and the writer's own view must show it."""
    from indi.routing import Router
    rng = ctx.rng("snoop-writer", i)

    def vec(attr, kind, name, n, **kw):
        v = {"attr": attr, "kind": kind, "name": name, "label": None, "state": None, "perm": None, "timeout": None, "enabled": True,
             "elements": [{"attr": f"e{k}", "name": f"{name}_E{k}", "label": None, "default": None, "enabled": True} for k in range(n)]}
        v.update(kw)
        return v
    nv = vec("n", "Number", "NUM", 2)
    for e in nv["elements"]:
        e.update(format="%.3f", min=None, max=None, step=0)
    spec = {"name": "TGT", "levels": [{"groups": [{"attr": "g", "name": "G", "enabled": True, "vectors": [
        vec("t", "Text", "TXT", 2), vec("u", "Text", "TXU", 1), nv, vec("s", "Switch", "SW", 2, rule="AnyOfMany", default_on=None)]}]}]}
    router = Router()
    tgt = D.build(spec)(router=router)
    guide = D.build(dict(spec, name="GUIDE"))(router=router)
    names = ["TXT", "TXU", "NUM", "SW"]
    plan = [rng.choice([None] + names) for _ in range(rng.choice([1, 2, 2, 3]))]
    if not any(p is None for p in plan) and rng.random() < 0.3:
        plan.insert(rng.randrange(len(plan) + 1), None)
    snoop = None
    for p in plan:
        snoop = guide.snoop_device("TGT", p) if p else guide.snoop_device("TGT")
    known = sorted(stack.client_view(snoop).get("TGT", {}))
    want_known = names if None in plan else sorted(set(plan))
    case = {"mode": "snoop-writer", "i": i}
    ctx.count("snooping_writer_sessions")
    if sorted(known) != sorted(want_known):
        ctx.violate("snooping-client-does-not-know-what-it-snooped", f"snooped {plan}: knows {known}", case)
        return
    for step in range(6):
        p = rng.choice(known)
        kind = {"TXT": "Text", "TXU": "Text", "NUM": "Number", "SW": "Switch"}[p]
        cvec = snoop.get_device("TGT").get_vector(p)
        en = rng.choice(list(cvec.list_elements()))
        val = {"Text": f"w{i}-{step}", "Number": round(rng.uniform(-100, 100), 2), "Switch": rng.choice(["On", "Off"])}[kind]
        before = snapshot([tgt], [spec])
        cvec.get_element(en).value = val
        cvec.submit()
        ctx.count("writes")
        ctx.count("writes_by_a_snooping_client")
        after = snapshot([tgt], [spec])
        key = ("TGT", p, en)
        changed = {k for k in after if after[k] != before.get(k) and not k[2].startswith("<")}
        have = after.get(key)
        ok = (abs(float(have) - val) < 1e-3) if kind == "Number" and have is not None else have == val
        if not ok:
            ctx.violate(f"target-does-not-hold-sent-value:{kind}:snooping-writer", f"{key}: device holds {have!r}, sent {val!r} (snooped {plan})", case)
            return
        if changed - {key}:
            ctx.violate("write-changed-other-elements:snooping-writer", f"{key}: also changed {sorted(changed - {key})}", case)
            return
        shown = stack.client_view(snoop).get("TGT", {}).get(p, {}).get("elements", {}).get(en, (None, None))[1]
        okv = (shown is not None and abs(float(shown) - val) < 1e-3) if kind == "Number" else shown == val
        if not okv:
            ctx.violate(f"client-view-stale-after-write:{kind}:snooping-writer",
                        f"{key}: the writing snooping client shows {shown!r}, device holds {have!r} (it snooped {plan})", case)
            return
    ctx.case_fast(("snoop-writer", i), nontrivial=True)


def proxy_case(ctx, i):
    """A Proxy device (indi.device.proxy.Proxy: accepts every device name, forwards to a remote server, and has a CONNECTION
    property of its own) shares the router with a driver that has the standard CONNECTION property too.  A write addressed to one
    of them changes that one and nothing of the other."""
    import indi.message as M
    from indi.device.proxy import Proxy
    from indi.message import one_parts
    from indi.routing import Router
    rng = ctx.rng("proxy", i)
    case = {"mode": "proxy", "i": i}
    forwarded, dialled = [], []

    class FakeConnection:
        def send_message(self, message):
            forwarded.append(message)

        def close(self):
            pass

    class FakeTransport:
        def connect(self, callback, for_blobs=False):
            dialled.append(1)
            return FakeConnection()

    router = Router()
    spec = {"name": "CAMX", "levels": [{"groups": [{"attr": "g", "name": "G", "enabled": True, "vectors": [
        D.std_vector_spec("common.Connection", "c"),
        {"attr": "t", "kind": "Text", "name": "NOTE", "label": None, "state": None, "perm": None, "timeout": None, "enabled": True,
         "elements": [{"attr": "e0", "name": "N0", "label": None, "default": "n", "enabled": True}]}]}]}]}
    order = rng.random() < 0.5
    cam = proxy = None
    for first in ([True, False] if order else [False, True]):
        if first:
            cam = D.build(spec)(router=router)
        else:
            proxy = type("Remote", (Proxy,), {"name": "REMOTE", "address": "server.invalid"})(router=router)
            proxy._client = FakeTransport()
    rec = devmon.RecClient()
    router.register_client(rec)
    router.process_message(M.GetProperties(version="1.7"), sender=rec)

    def state():
        pv = proxy.get_group("general").connection
        cv = D.vector_of(cam, "g", "c")
        return ({e.name: e.value for e in cv._elements.values()}, {e.name: e.value for e in pv._elements.values()})

    for step in range(rng.choice([2, 4, 6])):
        target = rng.choice(["CAMX", "CAMX", "REMOTE"])
        member = rng.choice(["CONNECT", "DISCONNECT"])
        before = state()
        del rec.received[:]
        nd = len(dialled)
        try:
            router.process_message(M.NewSwitchVector(device=target, name="CONNECTION", children=(one_parts.OneSwitch(name=member, value="On"),)), sender=rec)
        except Exception as e:
            ctx.violate(f"proxy:write-raises:{type(e).__name__}", f"newSwitchVector CONNECTION.{member}=On to {target} raised {e!r}", case)
            return
        after = state()
        ctx.count("writes_next_to_a_proxy_device")
        mine, other = (0, 1) if target == "CAMX" else (1, 0)
        names = ["CAMX", "REMOTE"]
        if after[mine].get(member) != "On":
            ctx.violate(f"proxy:target-does-not-hold-sent-value:{names[mine]}", f"{target}.CONNECTION.{member} is {after[mine].get(member)!r} after a write of On", case)
            return
        if after[other] != before[other]:
            ctx.violate(f"proxy:other-device-changed:{names[other]}", f"a write to {target}.CONNECTION changed {names[other]}.CONNECTION from {before[other]} to {after[other]}", case)
            return
        stray = [type(m).__name__ for m in rec.received if getattr(m, "device", None) == names[other]]
        if stray:
            ctx.violate(f"proxy:other-device-published:{names[other]}", f"a write to {target}.CONNECTION made {names[other]} publish {stray}", case)
            return
        if target == "CAMX" and len(dialled) != nd:
            ctx.violate("proxy:dialled-out-on-a-write-to-another-device", "the proxy opened its remote connection because another device was written", case)
            return
    ctx.case(("proxy", i), nontrivial=True)


def one_case(ctx, case):
    if case.get("mode") == "proxy":
        proxy_case(ctx, case["i"])
        return
    nw = asyncio.run(session(ctx, case))
    ctx.case({"i": case["i"], "specs": case["specs"], "modes": [case["mode_c2s"], case["mode_s2c"]]}, nontrivial=nw > 0,
             sample={"devices": [(s["name"], [v["name"] + ":" + v["kind"] for _, v in D.vectors_of(s)]) for s in case["specs"]],
                     "writes_verified": nw, "fragmentation": [case["mode_c2s"], case["mode_s2c"]]})


def run(ctx):
    n = 600 if not ctx.thorough else 30000
    for i in range(n):
        if not ctx.mine(i):
            continue
        one_case(ctx, gen_case(ctx, i))
        if ctx.enough():
            break
    for i in range(400 if not ctx.thorough else 20000):
        if ctx.mine(i):
            snooping_writer_case(ctx, i)
    for i in range(200 if not ctx.thorough else 5000):
        if ctx.mine(i):
            proxy_case(ctx, i)


def replay(ctx, case):
    if case.get("mode") == "snoop-writer":
        snooping_writer_case(ctx, case["i"])
        return
    one_case(ctx, case)
