"""C08 — BLOB payloads arrive bit-exact in both directions and never stall a link."""
from __future__ import annotations

import asyncio
import base64

from vf import bufmon, devmon, fullstack, stack
from vf.gen import drivers as D
from vf.instr import Patch

LEVEL = "exploration"
RULE = ("full in-memory stack; byte strings of EVERY length 0..3100 (covering the 1024-byte read size and the 2048-character junk "
        "threshold in raw and base64 terms; quick: each length under one rotating configuration, thorough: under every configuration, "
        "both plus 64 KiB - 300 KB payloads, thorough up to 4 MiB; the in-memory writer applies asyncio's write-buffer limits, so drain() of a "
        "connection with more than 64 KiB in flight waits until the peer has read down to 16 KiB) with seeded random contents covering all 256 byte values, formats incl. empty and non-ASCII; "
        "wire fragmentation {1024, 1 byte, random}; configurations: driver->real Client (control=Never + dedicated BLOB "
        "connection=Only), driver->single-connection client with policy {unset, Never, Also, Only} on a threshold-free or "
        "threshold-enabled link, real Client->driver upload; every second session with an in-process snooping client "
        "of another driver that enabled BLOBs (Also) and is registered before the remote connections; each followed by further traffic and by a delivery that is held "
        "half-way. Monitors: logical step budget on every Buffer.process call inside the event loop, bounded quiescence, task "
        "liveness, immutability of every routed message object across its fan-out, wire taps (no payload bytes to a client that did not enable BLOBs), element value/format/length/state on both "
        "sides. In every third real-Client session the BLOB connection comes up 3..40 loop iterations late while another client's getProperties makes the driver define, so that the definitions reach the control connection before the second connection exists. non-trivial = a payload that was published or uploaded; distinct = hash(length, configuration, fragmentation, format)")
ASSUMPTIONS = ["payloads are published after the client's handshake (incl. its enableBLOB) has been processed",
               "known finding: a payload message longer than the junk threshold on a link whose threshold is enabled is dropped"]
REQUIRED_EVENTS = ["sessions", "payloads_published", "payloads_uploaded", "payloads_verified", "no_payload_checks", "republished_same_object",
                   "buffer_process_calls_guarded", "half_way_holds", "following_traffic_checks", "drains_that_waited_for_a_slow_peer", "snooping_client_blob_checks", "routed_messages_checked_for_mutation", "read_handler_backed_blobs_published", "sessions_where_definitions_arrive_between_the_two_connects", "blobs_published_after_the_client_was_restarted", "snooping_clients_enabling_blobs_from_a_definition_callback"]

FORMATS = [".fits", "", ".bin", ".é", ".fits.z", ".ÿ<&>"]
FRAGS = ["1024", "1", "random"]
# (name, direction, policy, for_blobs)
CONFIGS = [
    ("client-two-connections", "d2c-client", None, None),
    ("single-unset", "d2c-single", None, False),
    ("single-never", "d2c-single", "Never", False),
    ("single-also-blobmode", "d2c-single", "Also", True),
    ("single-only-blobmode", "d2c-single", "Only", True),
    ("single-also-threshold", "d2c-single", "Also", False),
    ("upload", "c2d", None, None),
]
THRESHOLD = 2048
QUICK_SHARDS = 6


def make_spec():
    def vec(attr, kind, name, els):
        return {"attr": attr, "kind": kind, "name": name, "label": None, "state": None, "perm": None, "timeout": None, "enabled": True,
                "elements": [{"attr": f"e{i}", "name": f"{name}_E{i}", "label": None, "default": None, "enabled": True} for i in range(els)]}
    return {"name": "CAM", "levels": [{"groups": [{"attr": "g", "name": "G", "enabled": True,
                                                   "vectors": [vec("b", "BLOB", "IMG", 4), vec("t", "Text", "TXT", 1)]}]}]}


def _hide_late_element(spec):
    """The fourth BLOB element does not exist for clients at first: the driver enables it later."""
    spec["levels"][0]["groups"][0]["vectors"][0]["elements"][3]["enabled"] = False
    return spec


def payload(rng, n):
    if n == 0:
        return b""
    base = bytes(range(256))
    data = bytearray(rng.randbytes(n))
    # make sure every byte value occurs in long payloads
    if n >= 256:
        off = rng.randrange(0, n - 255)
        data[off:off + 256] = base
    return bytes(data)


class SingleClient:
    """A BaseClient on ONE real client-side ConnectionHandler with a chosen policy."""

    def __new__(cls, sess, policy, for_blobs):
        from indi.client.client import BaseClient
        from indi.message import EnableBLOB
        from indi.transport.client.tcp import ConnectionHandler

        class _C(BaseClient):
            def __init__(self):
                super().__init__()
                self.link = sess.new_link("single")
                self.handler = ConnectionHandler(self.link.c_reader, self.link.c_writer, self.process_message, for_blobs=for_blobs)
                self.link.client_handler = self.handler
                self.link.client_task = asyncio.get_running_loop().create_task(self.handler.wait_for_messages())

            def send_message(self, msg):
                self.handler.send_message(msg)

            def blob_handshake(self, device):
                if policy is not None:
                    self.send_message(EnableBLOB(device=device, value=policy))

        c = _C()
        c.handshake()
        return c


async def session(ctx, case):
    from indi.device import values
    from indi.routing import Router
    rng = ctx.rng("payload", case["n"], case["config"], case["frag"])
    n = case["n"]
    cfg = next(c for c in CONFIGS if c[0] == case["config"])
    _, direction, policy, for_blobs = cfg
    data = payload(rng, n)
    fmt = FORMATS[case["fmt"] % len(FORMATS)]
    patch = Patch()
    tap = devmon.RouterTap(ctx, validate=False)
    try:
        stats = bufmon.guard_process(patch)
        router = Router()
        spec = _hide_late_element(make_spec())
        hw = {"frame": None, "reads": 0}

        def leaf_hook(ns, defs):
            from indi.device import events
            from indi.device.events import on

            def grab(self, event):
                # the third BLOB element is never assigned: its value comes from the "camera" whenever it is read
                hw["reads"] += 1
                if hw["frame"] is not None:
                    event.element.reset_value(hw["frame"])
            ns["grab"] = on(defs["g"].vectors["b"].elements["e2"], events.Read)(grab)
        drv = D.build(spec, leaf_hook=leaf_hook)(router=router)
        snoop = None
        if case["n"] % 2:
            # another driver of the same process snoops the camera's images (a guider, a plate solver): its in-process client is
            # registered BEFORE the remote connections and is handed the very message objects they are serialised from later
            import indi.message as M
            guide = D.build(dict(make_spec(), name="GUIDE"))(router=router)
            if n % 4 == 1:
                # the guider asks for the camera's frames from its callback for the image property's DEFINITION, and follows that one
                # property only: its wish is announced while the library is still busy with the first message it ever saw of CAM
                from indi.client import events as CE
                snoop = guide.snooping_client

                def want_frames(event, _once=[]):
                    if event.vector.name == "IMG" and not _once:          # said once, when the property first appears
                        _once.append(1)
                        snoop.send_message(M.EnableBLOB(device="CAM", value="Also"))
                snoop.onevent(callback=want_frames, device="CAM", event_type=CE.DefinitionUpdate)
                guide.snoop_device("CAM", "IMG")
                ctx.count("snooping_clients_enabling_blobs_from_a_definition_callback")
            else:
                snoop = guide.snoop_device("CAM")
                snoop.send_message(M.EnableBLOB(device="CAM", value="Also"))
            ctx.count("sessions_with_a_snooping_client_that_enabled_blobs")
        sess = stack.Session(router, seed=n, mode_c2s=case["frag"], mode_s2c=case["frag"])
        if direction == "d2c-single":
            client = SingleClient(sess, policy, for_blobs)
            links = [client.link]
        else:
            if (n + case["fmt"]) % 3 == 1:
                # The BLOB connection takes a while to come up, and meanwhile somebody else (another client of the same server)
                # asks for the properties: the definitions are broadcast and reach this client's control connection before its
                # second connection exists.  It enabled BLOBs like any other Client and must receive them all the same.
                import indi.message as M
                sess.connect_delay["blob"] = [3, 10, 40][n % 3]
                bystander = devmon.RecClient()
                router.register_client(bystander)

                async def ask():
                    for _ in range(2):
                        await asyncio.sleep(0)
                    router.process_message(M.GetProperties(version="1.7"), sender=bystander)
                asking = sess.loop.create_task(ask())
                ctx.count("sessions_where_definitions_arrive_between_the_two_connects")
            client = await sess.make_client()
            links = list(client._vf_links)
        if await sess.quiesce() < 0:
            ctx.violate("stall:handshake", "loop did not quiesce after the handshake", case)
            return False
        ctx.count("sessions")
        el = D.element_of(drv, "g", "b", "e0")
        vec = D.vector_of(drv, "g", "b")

        def problems():
            failed = sess.mon.failed()
            if failed:
                nm, err = failed[0]
                kind = "process-hang" if "HangDetected" in err else "task-died"
                where = "client" if "wait_for_messages" in nm and "handler_func" not in nm else "server"
                return f"{kind}:{where}:{nm.split('.')[-1]}", f"{nm} ended with {err}"
            for t, nm in zip(sess.mon.tasks, sess.mon.names()):
                if t.done() and ("wait_for_messages" in nm or "handler_func" in nm):
                    return f"receive-loop-ended:{nm.split('.')[-1]}", f"{nm} finished"
            if tap.escaped:
                return f"exception-escapes-router:{type(tap.escaped[0][1]).__name__}", repr(tap.escaped[0][1])
            return None

        if direction == "c2d":
            if n % 4 == 2:
                # first an upload that is incomplete in the sense of its own declaration: well-formed, the base64 decodes cleanly, but
                # to fewer bytes than `size` says (a payload cut at a multiple of four characters, a compressed upload)
                b64 = base64.b64encode(data)
                cut = b64[:max(4, (len(b64) // 2) // 4 * 4)] if len(b64) >= 8 else b"QUJD"
                raw = (b'<newBLOBVector device="CAM" name="IMG"><oneBLOB name="IMG_E1" size="%d" format=".cut">' % (len(data) + 99)) + cut + b'</oneBLOB></newBLOBVector>\n'
                if len(raw) < 1900:
                    links[0].c_writer.write(raw)
                    await sess.quiesce()
                    ctx.count("uploads_shorter_than_their_declared_size")
                    p = problems()
                    if p:
                        ctx.violate(p[0] + ":after-an-upload-shorter-than-declared", p[1], case)
                        return False
            cvec = client.get_device("CAM").get_vector("IMG")
            upload = values.BLOB(data, fmt)
            cvec.get_element("IMG_E0").value = upload
            mark = len(links[0].c_writer.data)
            try:
                cvec.submit()
            except Exception as e:
                ctx.violate(f"upload-raises:{type(e).__name__}", f"submit raised {e!r}", case)
                return False
            ctx.count("payloads_uploaded")
            await asyncio.sleep(0)
            await asyncio.sleep(0)
            msg_len = longest_element(links[0].c_writer.data[mark:])
            # hold the delivery half-way: the receiver must stay responsive
            w = links[0].c2s
            if not await hold_half_way(ctx, case, sess, w, problems):
                return False
            if await sess.quiesce() < 0:
                ctx.violate("stall:after-upload", "loop did not quiesce after the upload", case)
                return False
            p = problems()
            if p:
                ctx.violate(p[0], p[1], case, {"message_chars": msg_len})
                return False
            got = fullstack.norm_blob(el.value)
            want = fullstack.norm_blob(("blob", data, fmt))
            # further traffic on the same connection still works
            tvec = client.get_device("CAM").get_vector("TXT")
            tvec.get_element("TXT_E0").value = "after upload"
            tvec.submit()
            await sess.quiesce()
            ctx.count("following_traffic_checks")
            after_ok = D.element_of(drv, "g", "t", "e0").value == "after upload"
            if got != want:
                lost = got is None
                if lost and msg_len > THRESHOLD and after_ok:
                    ctx.violate("payload-longer-than-threshold-on-threshold-enabled-link",
                                f"upload of {n} bytes ({msg_len} characters on the wire) was discarded by the server's framing buffer", case,
                                {"message_chars": msg_len, "link": "client->server (threshold 2048)"})
                    return True
                ctx.violate("upload-lost" if lost else "upload-corrupted", f"driver holds {describe(got)}, uploaded {describe(want)}", case,
                            {"message_chars": msg_len})
                return False
            if not after_ok:
                ctx.violate("traffic-after-upload-blocked", "a write sent after the upload did not reach the driver", case)
                return False
            ctx.count("payloads_verified")
            if msg_len <= THRESHOLD - 8:
                data2 = bytes((b + 7) % 256 for b in data)
                upload.binary = data2
                cvec.get_element("IMG_E0").value = upload
                cvec.submit()
                await sess.quiesce()
                ctx.count("republished_same_object")
                if fullstack.norm_blob(el.value) != fullstack.norm_blob(("blob", data2, fmt)):
                    ctx.violate("reuploaded-blob-object-carries-stale-payload", f"driver holds {describe(fullstack.norm_blob(el.value))} after the same "
                                                                               f"BLOB object was refilled and uploaded again", case)
                    return False
        else:
            if n % 3 == 1:
                # before the frame is published the driver withdraws its (unrelated) text property and offers it again
                tv = D.vector_of(drv, "g", "t")
                tv.enabled = False
                tv.enabled = True
                await sess.quiesce()
                ctx.count("other_property_withdrawn_and_offered_again_before_a_publication")
            mark = {l: len(l.s_writer.data) for l in links}
            frame = values.BLOB(data, fmt)
            el.value = frame
            vec.state_ = "Busy"
            ctx.count("payloads_published")
            await asyncio.sleep(0)
            await asyncio.sleep(0)
            msg_lens = {l.name: longest_element(l.s_writer.data[mark[l]:]) for l in links}
            target_link = links[-1]  # the connection that carries payloads (blob connection / the single one)
            if not await hold_half_way(ctx, case, sess, target_link.s2c, problems):
                return False
            # following traffic
            D.element_of(drv, "g", "t", "e0").value = "after blob"
            el2 = D.element_of(drv, "g", "b", "e1")
            el2.value = values.BLOB(b"tail", ".t")
            if await sess.quiesce() < 0:
                ctx.violate("stall:after-publication", "loop did not quiesce after the publication", case)
                return False
            # longest single message written to each connection during the whole publication phase (the follow-up
            # update of the same vector carries the long element again)
            msg_lens = {l.name: longest_element(l.s_writer.data[mark[l]:]) for l in links}
            p = problems()
            if p:
                ctx.violate(p[0], p[1], case, {"message_chars": msg_lens})
                return False
            wants_blob = direction == "d2c-client" or policy in ("Also", "Only")
            wants_text = direction == "d2c-client" or policy in (None, "Never", "Also")
            view = stack.client_view(client).get("CAM", {})
            got = fullstack.norm_blob(view.get("IMG", {}).get("elements", {}).get("IMG_E0", (None, None))[1])
            got2 = fullstack.norm_blob(view.get("IMG", {}).get("elements", {}).get("IMG_E1", (None, None))[1])
            want = fullstack.norm_blob(("blob", data, fmt))
            ctx.count("following_traffic_checks")
            if wants_text and view.get("TXT", {}).get("elements", {}).get("TXT_E0", (None, None))[1] != "after blob":
                ctx.violate("traffic-after-blob-blocked", "an update published after the BLOB did not reach the client", case, {"message_chars": msg_lens})
                return False
            if wants_blob:
                threshold_link = direction == "d2c-single" and not for_blobs
                big = max(msg_lens.values()) > THRESHOLD
                tail_ok = got2 == ("blob", b"tail", ".t")
                if threshold_link and big and (got is None or got2 is None) and got in (None, want) and got2 in (None, ("blob", b"tail", ".t")):
                    # every setBLOBVector of this property carries the long element, so each of them exceeds the threshold
                    ctx.violate("payload-longer-than-threshold-on-threshold-enabled-link",
                                f"BLOB of {n} bytes ({max(msg_lens.values())} characters) was discarded by the client's framing buffer", case,
                                {"message_chars": msg_lens, "link": "server->client with threshold enabled and enableBLOB Also"})
                    return True
                if got != want:
                    ctx.violate("payload-lost" if got is None else "payload-corrupted", f"client holds {describe(got)}, published {describe(want)}",
                                case, {"message_chars": msg_lens})
                    return False
                if not tail_ok:
                    ctx.violate("blob-after-blob-lost", f"the second BLOB did not arrive: {describe(got2)}", case)
                    return False
                if view["IMG"]["state"] != "Busy":
                    ctx.violate("blob-property-state-stale", f"client shows state {view['IMG']['state']!r}, device is Busy", case)
                    return False
                ctx.count("payloads_verified")
                # the driver refills the SAME BLOB object (one frame buffer per camera) and publishes it again
                if not (threshold_link and big):
                    data2 = bytes((b + 1) % 256 for b in data[::-1]) + (b"+" if n % 2 else b"")
                    frame.binary = data2
                    frame.format = fmt + "2"
                    mark2 = len(target_link.s_writer.data)
                    el.value = frame
                    if await sess.quiesce() < 0:
                        ctx.violate("stall:after-republication", "loop did not quiesce", case)
                        return False
                    p = problems()
                    if p:
                        ctx.violate(p[0] + ":republished-object", p[1], case)
                        return False
                    if direction == "d2c-client" and not (threshold_link and big):
                        # an element the driver enables only now; the client learns about it from the answer to its next
                        # getProperties (a poll) - no delProperty in between - and must then receive its frames
                        late = D.element_of(drv, "g", "b", "e3")
                        late.enabled = True
                        client.handshake()
                        await sess.quiesce()
                        data4 = b"late" + data[:40]
                        late.value = values.BLOB(data4, ".late")
                        if await sess.quiesce() < 0:
                            ctx.violate("stall:after-late-element", "loop did not quiesce", case)
                            return False
                        gotl = fullstack.norm_blob(stack.client_view(client).get("CAM", {}).get("IMG", {}).get("elements", {}).get("IMG_E3", (None, None))[1])
                        ctx.count("blobs_on_an_element_enabled_later")
                        if gotl != ("blob", data4, ".late"):
                            ctx.violate("blob-on-an-element-enabled-later-lost", f"client holds {describe(gotl)} for the element the driver enabled after the "
                                                                               f"first definition (re-defined in answer to a getProperties)", case)
                            return False
                    # the hardware-backed element: published by a state change, never assigned
                    data3 = bytes(reversed(data[:64])) + b"hw"
                    hw["frame"] = values.BLOB(data3, ".hw")
                    mark3 = len(target_link.s_writer.data)
                    vec.state_ = "Ok"
                    if await sess.quiesce() < 0:
                        ctx.violate("stall:after-state-change", "loop did not quiesce", case)
                        return False
                    gothw = fullstack.norm_blob(stack.client_view(client).get("CAM", {}).get("IMG", {}).get("elements", {}).get("IMG_E2", (None, None))[1])
                    ctx.count("read_handler_backed_blobs_published")
                    too_long = threshold_link and longest_element(target_link.s_writer.data[mark3:]) > THRESHOLD     # the known finding
                    if gothw != ("blob", data3, ".hw") and not too_long:
                        ctx.violate("read-handler-backed-blob-not-published", f"client holds {describe(gothw)} for the element whose Read handler supplies "
                                                                              f"{describe(('blob', data3, '.hw'))} (published by a state change)", case)
                        return False
                    got3 = fullstack.norm_blob(stack.client_view(client).get("CAM", {}).get("IMG", {}).get("elements", {}).get("IMG_E0", (None, None))[1])
                    ctx.count("republished_same_object")
                    too_long2 = threshold_link and longest_element(target_link.s_writer.data[mark2:]) > THRESHOLD       # the known finding
                    if got3 != fullstack.norm_blob(("blob", data2, fmt + "2")) and not too_long2:
                        ctx.violate("republished-blob-object-carries-stale-payload", f"client holds {describe(got3)} after the same BLOB object was "
                                                                                   f"refilled with {describe(('blob', data2, fmt + '2'))} and published again", case)
                        return False
            else:
                ctx.count("no_payload_checks")
                if got is not None or got2 is not None:
                    ctx.violate("payload-delivered-without-enableBLOB", f"client with policy {policy} holds {describe(got)}", case)
                    return False
            # wire taps: no payload bytes on a connection that did not enable BLOBs
            for l in links:
                carries = (direction == "d2c-client" and l is links[1]) or (direction == "d2c-single" and policy in ("Also", "Only"))
                sent = bytes(l.s2c.delivered).decode("latin1")
                if not carries and "<setBLOBVector" in sent:
                    ctx.violate("payload-bytes-sent-to-connection-without-enableBLOB", f"{l.name}: setBLOBVector on the wire", case)
                    return False
                if direction == "d2c-client" and l is links[1] and "<setTextVector" in sent[sent.find("<setBLOBVector"):]:
                    ctx.violate("non-blob-traffic-on-only-connection", "the Only connection received a text update after its handshake", case)
                    return False
        if direction == "d2c-client":
            # The application stops its Client and starts the SAME object again (the server was restarted, the network was down).
            # It is the same application with the same wish: the frames published afterwards must reach it again.
            client.stop()
            for l in links:
                l.s2c.hold = True               # a closed socket delivers nothing further
                l.c_reader.feed_eof()
            if await sess.quiesce() < 0:
                ctx.violate("stall:after-client-stop", "loop did not quiesce after Client.stop()", case)
                return False
            p = problems()
            if p and not p[0].startswith("receive-loop-ended"):
                ctx.violate(p[0] + ":after-client-stop", p[1], case)
                return False
            sess.mon.tasks = [t for t in sess.mon.tasks if not t.done()]      # the closed connections' loops have ended, as they should
            sess.connect_delay.clear()
            try:
                await client.start()
            except Exception as e:
                ctx.violate(f"client-restart-raises:{type(e).__name__}", f"Client.start() after stop() raised {e!r}", case)
                return False
            if await sess.quiesce() < 0:
                ctx.violate("stall:after-client-restart", "loop did not quiesce after the second Client.start()", case)
                return False
            data5 = b"again" + data[:50]
            el.value = values.BLOB(data5, ".again")
            if await sess.quiesce() < 0:
                ctx.violate("stall:after-client-restart", "loop did not quiesce after a publication to the restarted client", case)
                return False
            p = problems()
            if p:
                ctx.violate(p[0] + ":after-client-restart", p[1], case)
                return False
            got5 = fullstack.norm_blob(stack.client_view(client).get("CAM", {}).get("IMG", {}).get("elements", {}).get("IMG_E0", (None, None))[1])
            ctx.count("blobs_published_after_the_client_was_restarted")
            if got5 != ("blob", data5, ".again"):
                ctx.violate("blob-after-client-restart-lost", f"the Client was stopped and started again (same object); it holds {describe(got5)} after the device "
                                                              f"published {describe(('blob', data5, '.again'))}", case)
                return False
        if snoop is not None:
            sv = stack.client_view(snoop).get("CAM", {}).get("IMG", {}).get("elements", {})
            for k, e in (("IMG_E0", el), ("IMG_E1", D.element_of(drv, "g", "b", "e1")), ("IMG_E2", D.element_of(drv, "g", "b", "e2"))):
                # (IMG_E3, enabled later, is compared above through the connected client)
                have, dev = fullstack.norm_blob(sv.get(k, (None, None))[1]), fullstack.norm_blob(e._value)
                ctx.count("snooping_client_blob_checks")
                if have != dev:
                    ctx.violate("snooping-client-blob-differs", f"{k}: the in-process snooping client (enableBLOB Also) holds {describe(have)}, the device {describe(dev)}", case)
                    return False
        tap.report_invalid(ctx, case)
        ctx.counters["buffer_process_calls_guarded"] = ctx.counters.get("buffer_process_calls_guarded", 0) + stats["calls"]
        ctx.count("drains_that_waited_for_a_slow_peer", sum(w.writer.drains_paused for l in sess.links for w in l.wires()))
        ctx.notes["max_line_events_in_one_process_call"] = max(ctx.notes.get("max_line_events_in_one_process_call", 0), stats["max_steps"])
        await sess.close()
        return True
    finally:
        tap.close()
        patch.undo()


async def hold_half_way(ctx, case, sess, wire, problems):
    """Deliver roughly half of what is in flight on `wire`, hold it, and let
    the loop run: nothing may spin or die while a payload is partial."""
    total = wire.in_flight()
    if total < 2:
        return True
    ctx.count("half_way_holds")
    target = total // 2
    while wire.in_flight() > target:
        if not wire.pump():
            break
        await asyncio.sleep(0)
    wire.hold = True
    for _ in range(20):
        sess.pump()
        await asyncio.sleep(0)
    wire.hold = False
    p = problems()
    if p:
        ctx.violate(p[0] + ":while-payload-partial", p[1], case)
        return False
    return True


def longest_element(data):
    from vf.ref import xmlsplit
    try:
        els, rest = xmlsplit.split(bytes(data))
    except xmlsplit.SplitError:
        return len(data)
    return max([len(e) for e in els] + [len(rest)])


def describe(v):
    if v is None:
        return "nothing"
    return f"{len(v[1])} bytes {v[2]!r} (head {v[1][:8].hex()})"


def one_case(ctx, case):
    ok = asyncio.run(session(ctx, case))
    ctx.case((case["n"], case["config"], case["frag"], case["fmt"]), nontrivial=bool(ok),
             sample={"bytes": case["n"], "configuration": case["config"], "fragmentation": case["frag"], "format": FORMATS[case["fmt"] % len(FORMATS)]})


def run(ctx):
    i = 0
    if not ctx.thorough:
        for n in range(0, 3101):
            if not ctx.mine(n):
                continue
            # every length; the configuration / fragmentation / format assigned to a length rotates with the seed
            k = n + 5 * ctx.seed
            cfg = CONFIGS[k % len(CONFIGS)][0]
            frag = FRAGS[(k // len(CONFIGS)) % len(FRAGS)]
            if frag == "1" and n > 400 and n % 9:
                frag = "1024"       # byte-by-byte delivery of long payloads: sampled
            one_case(ctx, {"n": n, "config": cfg, "frag": frag, "fmt": k})
            if ctx.enough():
                return
        # payloads beyond the transport's write-buffer limit (64 KiB): the sender's drain() really waits for the slow peer
        j = 0
        for n in (65536, 70000, 100000, 150000, 200001, 300000):
            for ci, c in enumerate(CONFIGS):
                j += 1
                if c[0] == "single-also-threshold" or not ctx.mine(3101 + j):
                    continue
                one_case(ctx, {"n": n, "config": c[0], "frag": ["1024", "random", "whole"][(j + ctx.seed) % 3], "fmt": j})
                ctx.count("payloads_beyond_write_buffer_limit")
        return
    for n in range(0, 3101):
        for ci, c in enumerate(CONFIGS):
            for fi, frag in enumerate(FRAGS):
                i += 1
                if not ctx.mine(i):
                    continue
                if frag == "1" and n > 400 and (n + ci) % 7:
                    continue
                one_case(ctx, {"n": n, "config": c[0], "frag": frag, "fmt": n + ci})
                if ctx.enough():
                    return
    for k, n in enumerate([65536, 100000, 262144, 1 << 20, (1 << 20) + 1, 4 << 20]):
        for ci, c in enumerate(CONFIGS):
            i += 1
            if not ctx.mine(i):
                continue
            if c[0] in ("single-also-threshold",):
                continue
            one_case(ctx, {"n": n, "config": c[0], "frag": "1024" if n > 300000 else FRAGS[(k + ci) % 2 * 2], "fmt": k})


def exhaustive(ctx):
    return False


def replay(ctx, case):
    one_case(ctx, case)
