"""C18 — every way a connection can end leaves the router clean and the others served."""
from __future__ import annotations

import asyncio
import base64

from vf import devmon, stack
from vf.gen import drivers as D
from vf.ref import xmlsplit
from vf.ref.view import view_xml

LEVEL = "fault_enumeration"
RULE = ("session scripts of 2-3 concurrent connections (handshake, enableBLOB Never/Also/Only, client writes, device text and BLOB "
        "traffic; 8-12 steps; 5 hand-written scripts, thorough adds 40 generated ones) on real connection handlers driven through fake streams (TCP: ConnectionHandler.handler(router) on a "
        "StreamReader + FakeWriter; TTY: ConnectionHandler.handle() on a fake stdin/stdout; mixed) x fault in {EOF, read error, EOF "
        "inside a message, junk then EOF, exception while one of its messages is handled, write+drain error on the peer followed by a "
        "reset, cancellation of the serving task} injected at EVERY step index; for TCP victims also while the peer has stopped reading and a send to it is parked in drain(), and while ANOTHER connection has a backlog of parked and queued sends. Monitors after the fault and after every later step: Router.clients, "
        "Router.blob_routing, ConnectionHandler.connections, writer.closed, writes after close, calls of message_from_device on the "
        "ended handler, and the marker sequence each surviving connection received versus a reference policy model; a reconnecting "
        "peer must start from default settings. In half of the sessions TTY peers are served through the public TTY server object, whose start() is awaited again when the peer comes back; the router must then hold a client for it. non-trivial = every (script, fault, position, transport mix); distinct = hash of it")
ASSUMPTIONS = ["the handler-exception fault is raised by a failpoint device (a driver now contains its own errors, C12)",
               "a write error on the peer is followed by a reset of its read side, as on a real socket"]
REQUIRED_EVENTS = ["sessions_with_the_tty_server_object", "tty_server_objects_started_again", "sessions", "faults_injected", "ended_connections_checked", "survivor_traffic_checks", "reconnects_checked",
                   "tcp_faults", "tty_faults", "faults_with_a_send_parked_on_a_stalled_peer", "faults_while_a_survivor_has_a_backlog"]
EXHAUSTIVE_NOTE = "every fault kind at every step index of every script, for each transport mix of the tier"

QUICK_SHARDS = 4
FAULTS = ["eof", "read-error", "eof-inside-message", "junk-then-eof", "handler-exception", "write-error", "task-cancelled",
          "handler-exception-then-partial-message", "handler-exception-between-messages"]


def make_spec():
    def vec(attr, kind, name):
        return {"attr": attr, "kind": kind, "name": name, "label": None, "state": None, "perm": None, "timeout": None, "enabled": True,
                "elements": [{"attr": "e0", "name": name + "_E", "label": None, "default": None, "enabled": True}]}
    return {"name": "DEV", "levels": [{"groups": [{"attr": "g", "name": "G", "enabled": True,
                                                   "vectors": [vec("t", "Text", "TXT"), vec("b", "BLOB", "IMG")]}]}]}


SCRIPTS = [
    # (connections, steps)
    (2, [("hs", 0), ("hs", 1), ("blob", 0, "Also"), ("dtext",), ("dblob",), ("write", 0), ("blob", 1, "Only"), ("dblob",), ("dtext",), ("write", 1)]),
    (2, [("hs", 0), ("dtext",), ("hs", 1), ("blob", 1, "Also"), ("dblob",), ("blob", 0, "Never"), ("dtext",), ("dblob",)]),
    (3, [("hs", 0), ("hs", 1), ("hs", 2), ("blob", 2, "Only"), ("blob", 1, "Also"), ("dtext",), ("dblob",), ("write", 2), ("dtext",), ("write", 0),
         ("dblob",), ("dtext",)]),
    (3, [("blob", 0, "Also"), ("hs", 1), ("dblob",), ("hs", 0), ("write", 1), ("dtext",), ("hs", 2), ("blob", 2, "Also"), ("dblob",), ("dtext",)]),
    (2, [("hs", 0), ("blob", 0, "Only"), ("dblob",), ("dblob",), ("hs", 1), ("dtext",), ("write", 1), ("dtext",), ("dblob",)]),
]
MIXES2 = [("tcp", "tcp"), ("tty", "tcp"), ("tcp", "tty")]
MIXES3 = [("tcp", "tcp", "tcp"), ("tcp", "tty", "tcp"), ("tty", "tcp", "tcp")]


class Stdin:
    def __init__(self):
        self.q = asyncio.Queue()

    async def readline(self):
        item = await self.q.get()
        if isinstance(item, BaseException):
            raise item
        return item


class Stdout:
    def __init__(self):
        self.chunks = []
        self.fail = None

    async def write(self, data):
        if self.fail is not None:
            raise self.fail
        self.chunks.append(data)

    async def flush(self):
        if self.fail is not None:
            raise self.fail


class Conn:
    def __init__(self, kind, router, sess, name, via_server_object=False, again=None):
        self.kind, self.router, self.sess, self.name = kind, router, sess, name
        self.calls_after_end = 0
        self.ended = False
        self.out_mark = 0
        self.server = None
        if kind == "tcp":
            self.link = sess.new_link(name)
            self.task = self.link.server_task
            self.handler = None
        elif via_server_object or (again is not None and again.server is not None):
            # the application's way: one indi.transport.server.tty.TTY object on the process's stdin / stdout, its start() awaited -
            # and awaited AGAIN when the session has ended (`while True: await server.start()`)
            from indi.transport.server.tty import TTY
            if again is not None:
                self.stdin, self.stdout, self.server = again.stdin, again.stdout, again.server
                while not self.stdin.q.empty():
                    self.stdin.q.get_nowait()
                self.stdout.fail = None
                self.out_mark = len(self.stdout.chunks)
            else:
                self.stdin, self.stdout = Stdin(), Stdout()
                self.server = TTY(router, self.stdin, self.stdout)
            self._clients_before = list(router.clients)
            self.handler = None
            self.task = asyncio.get_running_loop().create_task(self.server.start())
        else:
            from indi.transport.server.tty import ConnectionHandler
            self.stdin, self.stdout = Stdin(), Stdout()
            self.handler = ConnectionHandler(router, self.stdin, self.stdout)
            self.task = asyncio.get_running_loop().create_task(self.handler.handle())
            self._wrap()

    def _wrap(self):
        h = self.handler
        orig = h.message_from_device
        me = self

        def message_from_device(message):
            if me.ended:
                me.calls_after_end += 1
            return orig(message)
        h.message_from_device = message_from_device

    def resolve(self):
        if self.kind == "tcp" and self.handler is None:
            self.handler = self.sess.server_conn_of(self.link)
            if self.handler is not None:
                self._wrap()
        if self.kind == "tty" and self.handler is None:
            from indi.transport.server.tty import ConnectionHandler
            fresh = [c for c in self.router.clients if isinstance(c, ConnectionHandler) and not any(c is b for b in self._clients_before)]
            if fresh:
                self.handler = fresh[-1]
                self._wrap()

    async def send(self, text):
        if self.kind == "tcp":
            self.link.s_reader.feed_data(text.encode("latin1"))
        else:
            self.stdin.q.put_nowait(text + "\n")
        await self.sess.quiesce()

    def output(self):
        if self.kind == "tcp":
            return self.link.s_writer.data.decode("latin1")
        return "".join(self.stdout.chunks[self.out_mark:])

    async def fault(self, kind):
        half = '<newTextVector device="DEV" name="TXT"><oneText name="TXT_E">hal'
        if kind == "eof":
            self._eof()
        elif kind == "read-error":
            self._error(ConnectionResetError("reset by peer"))
        elif kind == "eof-inside-message":
            await self._raw(half)
            self._eof()
        elif kind == "junk-then-eof":
            await self._raw('\x00\xff<<<getProperties version="1.7"><oneText>&&& </defTextVector>')
            self._eof()
        elif kind == "handler-exception":
            await self._raw('<getProperties version="1.7" device="BOOM"/>\n')
        elif kind == "handler-exception-then-partial-message":
            # the same read / line also carries the beginning of the connection's NEXT message
            await self._raw('<getProperties version="1.7" device="BOOM"/><newTextVector device="DEV" name="TXT"><oneText na')
        elif kind == "handler-exception-between-messages":
            await self._raw('<getProperties version="1.7"/><getProperties version="1.7" device="BOOM"/><getProperties version="1.7"/>')
        elif kind == "task-cancelled":
            # the serving task is cancelled from outside (a supervisor timing the session out, the server shutting this connection down)
            self.resolve()
            self.task.cancel()
        elif kind == "write-error":
            err = ConnectionResetError("broken pipe")
            if self.kind == "tcp":
                self.link.s_writer.fail_write = err
                self.link.s_writer.fail_drain = err
            else:
                self.stdout.fail = err
        await self.sess.quiesce()

    async def _raw(self, text):
        if self.kind == "tcp":
            self.link.s_reader.feed_data(text.encode("latin1"))
        else:
            self.stdin.q.put_nowait(text if text.endswith("\n") else text + "\n")
        await self.sess.quiesce()

    def _eof(self):
        if self.kind == "tcp":
            self.link.s_reader.feed_eof()
        else:
            self.stdin.q.put_nowait("")

    def _error(self, exc):
        if self.kind == "tcp":
            self.link.s_reader.set_exception(exc)
        else:
            self.stdin.q.put_nowait(exc)


async def session(ctx, case):
    from indi.device import values
    from indi.routing import Device, Router
    from indi.transport.server.tcp import ConnectionHandler as TcpConn
    nconn, steps = SCRIPTS[case["script"]]
    mix = case["mix"]
    fault, pos, victim = case["fault"], case["pos"], case["victim"]
    router = Router()
    spec = make_spec()
    drv = D.build(spec)(router=router)

    class Boom(Device):
        def accepts(self, device):
            return device == "BOOM"

        def message_from_client(self, message):
            raise RuntimeError("failpoint: handler exception")

    router.register_device(Boom())
    sess = stack.Session(router)
    del TcpConn.connections[:]
    via_object = case["pos"] % 2 == 0          # TTY connections through the public TTY server object, or the handler class directly
    conns = [Conn(mix[i], router, sess, f"c{i}", via_server_object=via_object) for i in range(nconn)]
    if via_object and "tty" in mix:
        ctx.count("sessions_with_the_tty_server_object")
    await sess.quiesce()
    for c in conns:
        c.resolve()
    ctx.count("sessions")
    policy = {i: "Never" for i in range(nconn)}   # reference model: policy per live connection (default Never)
    expected = {i: [] for i in range(nconn)}      # markers each connection must have received
    live = set(range(nconn))
    marker = [0]
    reconnected = None

    def problem(key, what):
        ctx.violate(key, what, case, {"fault": fault, "position": pos, "victim": victim, "mix": mix})
        return False

    def publish(fn, when):
        """A device-side publication: an error of one connection must never come back to the driver."""
        try:
            fn()
            return True
        except Exception as e:
            return problem(f"connection-error-reaches-the-driver:{type(e).__name__}:{fault}",
                           f"{when}: publishing raised {e!r} (a broken connection must only affect itself)")

    async def check_ended(c, i, when):
        c.resolve()
        ctx.count("ended_connections_checked")
        if not c.task.done():
            return problem(f"connection-not-ended:{c.kind}:{fault}", f"{when}: handler of {c.name} is still running after {fault}")
        if c.handler is not None and c.handler in router.clients:
            return problem(f"ended-connection-still-registered:{c.kind}:{fault}", f"{when}: {c.name} is still in Router.clients")
        if c.handler is not None and c.handler in router.blob_routing:
            return problem(f"ended-connection-keeps-blob-settings:{c.kind}:{fault}", f"{when}: {c.name} still has an entry in Router.blob_routing")
        if c.kind == "tcp":
            if not c.link.s_writer.closed:
                return problem(f"ended-connection-writer-open:{fault}", f"{when}: writer of {c.name} was not closed")
            if c.handler is not None and c.handler in TcpConn.connections:
                return problem(f"ended-connection-in-connections-list:{fault}", f"{when}: {c.name} is still in ConnectionHandler.connections")
        if c.calls_after_end:
            return problem(f"delivery-attempted-to-ended-connection:{c.kind}", f"{when}: message_from_device called {c.calls_after_end}x on {c.name} after it ended")
        return True

    def survivors_ok(when):
        for i in sorted(live):
            c = conns[i] if i < len(conns) else None
            if c is None:
                continue
            ctx.count("survivor_traffic_checks")
            try:
                els, rest = xmlsplit.split(c.output())
            except xmlsplit.SplitError as e:
                return problem(f"survivor-output-malformed:{c.kind}", f"{when}: {c.name}: {e}")
            got = []
            for e in els:
                v = view_xml(e)
                if v[0] == "setTextVector" and v[3]:
                    t = v[3][0][2] or ""
                    if t.startswith("MARK"):
                        got.append(t)
                elif v[0] == "setBLOBVector" and v[3]:
                    raw = base64.b64decode(v[3][0][2] or "")
                    if raw.startswith(b"MARK"):
                        got.append(raw.decode())
            if got != expected[i]:
                missing = [m for m in expected[i] if m not in got]
                extra = [m for m in got if m not in expected[i]]
                kind = "survivor-misses-device-traffic" if missing else ("survivor-gets-unexpected-traffic" if extra else "survivor-traffic-reordered")
                return problem(f"{kind}:{fault}", f"{when}: {c.name} received {got}, expected {expected[i]}")
            reg = c.handler in router.clients if c.handler is not None else None
            if reg is False or c.task.done():
                return problem(f"survivor-dropped:{c.kind}:{fault}", f"{when}: surviving connection {c.name} was dropped")
        return True

    for idx in range(len(steps) + 1):
        if idx == pos and victim in live:
            c = conns[victim]
            ctx.count("faults_injected")
            ctx.count(f"{c.kind}_faults")
            slow = None
            if case.get("backlog"):
                # ANOTHER connection has a backlog (its peer reads slowly: one send parked in drain(), the next ones queued behind
                # it) at the moment the victim's connection ends; when its peer catches up it must still get everything
                others = [i for i in sorted(live) if i != victim and i < len(conns) and conns[i].kind == "tcp" and policy[i] != "Only"]
                if others:
                    slow = conns[others[0]]
                    slow.link.s_writer.flow = lambda: True
                    for _ in range(2):
                        marker[0] += 1
                        m = f"MARK{marker[0]}"
                        for i in live:
                            if i != victim and policy[i] != "Only":
                                expected[i].append(m)
                        if not publish(lambda m=m: setattr(D.element_of(drv, "g", "t", "e0"), "value", m), "with a slow survivor"):
                            return
                        await sess.quiesce()
                    ctx.count("faults_while_a_survivor_has_a_backlog")
            if case.get("stalled") and c.kind == "tcp":
                # the peer has stopped READING: a send to it is parked in drain() when its connection ends
                c.link.s_writer.flow = lambda: True
                marker[0] += 1
                m = f"MARK{marker[0]}"
                for i in live:
                    if i != victim and policy[i] != "Only":
                        expected[i].append(m)
                if not publish(lambda: setattr(D.element_of(drv, "g", "t", "e0"), "value", m), "towards a stalled peer"):
                    return
                await sess.quiesce()
                ctx.count("faults_with_a_send_parked_on_a_stalled_peer")
            await c.fault(fault)
            if fault == "write-error":
                # traffic that hits the broken writer, then the reset reaches the read side
                marker[0] += 1
                m = f"MARK{marker[0]}"
                for i in live:
                    if i != victim and policy[i] != "Only":
                        expected[i].append(m)
                if not publish(lambda: setattr(D.element_of(drv, "g", "t", "e0"), "value", m), "after write-error"):
                    return
                await sess.quiesce()
                c._error(ConnectionResetError("reset"))
                await sess.quiesce()
            c.ended = True
            live.discard(victim)
            if slow is not None:
                slow.link.s_writer.flow = slow.link.s2c._flow
                await sess.quiesce()
            if not await check_ended(c, victim, f"after {fault} at step {idx}"):
                return
            if not survivors_ok(f"after {fault} at step {idx}"):
                return
            # the peer reconnects: default settings
            rc = Conn(c.kind, router, sess, f"c{victim}r", again=c if c.kind == "tty" else None)
            await sess.quiesce()
            rc.resolve()
            if rc.handler is None and rc.server is not None:
                ctx.violate(f"reconnected-peer-is-not-registered-with-the-router:{c.kind}",
                            f"after {fault} at step {idx} the {c.kind} peer came back ({'the same TTY server object started again' if rc.server is not None else 'a new connection'}) "
                            f"and the router has no client for it", case)
                return
            if rc.server is not None:
                ctx.count("tty_server_objects_started_again")
            conns.append(rc)
            reconnected = len(conns) - 1
            policy[reconnected] = "Never"
            expected[reconnected] = []
            live.add(reconnected)
        if idx == len(steps):
            break
        st = steps[idx]
        if st[0] in ("hs", "blob", "write"):
            ci = st[1]
            if ci == victim and victim not in live:
                ci = reconnected if st[0] != "blob" else None      # the reconnected peer keeps its defaults
            if ci is None or ci not in live:
                continue
            c = conns[ci]
            if st[0] == "hs":
                await c.send('<getProperties version="1.7"/>')
            elif st[0] == "blob":
                await c.send(f'<enableBLOB device="DEV">{st[2]}</enableBLOB>')
                policy[ci] = st[2]
            else:
                marker[0] += 1
                m = f"MARK{marker[0]}"
                for i in live:
                    if policy[i] != "Only":
                        expected[i].append(m)          # the resulting update goes to everybody incl. the writer
                await c.send(f'<newTextVector device="DEV" name="TXT"><oneText name="TXT_E">{m}</oneText></newTextVector>')
        elif st[0] == "dtext":
            marker[0] += 1
            m = f"MARK{marker[0]}"
            for i in live:
                if policy[i] != "Only":
                    expected[i].append(m)
            if not publish(lambda: setattr(D.element_of(drv, "g", "t", "e0"), "value", m), f"step {idx}"):
                return
            await sess.quiesce()
        elif st[0] == "dblob":
            marker[0] += 1
            m = f"MARK{marker[0]}"
            for i in live:
                if policy[i] in ("Also", "Only"):
                    expected[i].append(m)
            if not publish(lambda: setattr(D.element_of(drv, "g", "b", "e0"), "value", values.BLOB(m.encode(), ".m")), f"step {idx}"):
                return
            await sess.quiesce()
        if not survivors_ok(f"after step {idx} {st}"):
            return
        if victim not in live and pos <= idx:
            if not await check_ended(conns[victim], victim, f"after step {idx} {st}"):
                return
    if reconnected is not None:
        ctx.count("reconnects_checked")
        rc = conns[reconnected]
        if rc.handler is not None and router.blob_routing.get(rc.handler) not in ({}, None):
            return problem("reconnected-peer-inherits-settings", f"reconnected peer starts with {router.blob_routing.get(rc.handler)}")
    for nm, err in sess.mon.failed():
        if "send" in nm or "_write" in nm:
            continue   # the failing write of the broken connection is expected to fail
        return problem(f"task-died:{nm.split('.')[-1]}", f"{nm}: {err}")
    await sess.close()


def one_case(ctx, case):
    asyncio.run(session(ctx, case))
    ctx.case((case["script"], tuple(case["mix"]), case["fault"], case["pos"], case["victim"], bool(case.get("stalled")), bool(case.get("backlog"))), nontrivial=True,
             sample={"script": SCRIPTS[case["script"]][1][:6], "mix": case["mix"], "fault": case["fault"], "position": case["pos"], "victim": case["victim"]})


def gen_script(rng):
    nconn = rng.choice([2, 3])
    steps = []
    for _ in range(rng.choice([8, 10, 12])):
        r = rng.random()
        c = rng.randrange(nconn)
        if r < 0.2:
            steps.append(("hs", c))
        elif r < 0.4:
            steps.append(("blob", c, rng.choice(["Never", "Also", "Only"])))
        elif r < 0.55:
            steps.append(("write", c))
        elif r < 0.8:
            steps.append(("dtext",))
        else:
            steps.append(("dblob",))
    return nconn, steps


def run(ctx):
    if ctx.thorough:
        for k in range(40):
            SCRIPTS.append(gen_script(ctx.rng("script", k)))
    i = 0
    for si, (nconn, steps) in enumerate(SCRIPTS):
        mixes = MIXES2 if nconn == 2 else MIXES3
        for mix in mixes:
            for fault in FAULTS:
                for pos in range(len(steps) + 1):
                    victims = range(nconn)
                    for victim in victims:
                        i += 1
                        if not ctx.mine(i):
                            continue
                        one_case(ctx, {"script": si, "mix": list(mix), "fault": fault, "pos": pos, "victim": victim})
                        if fault in ("eof", "read-error", "handler-exception", "task-cancelled") and pos % 3 == 2:
                            one_case(ctx, {"script": si, "mix": list(mix), "fault": fault, "pos": pos, "victim": victim, "backlog": True})
                        if mix[victim] == "tcp" and fault != "write-error" and pos % 2 == 1:
                            one_case(ctx, {"script": si, "mix": list(mix), "fault": fault, "pos": pos, "victim": victim, "stalled": True})
                        if ctx.enough():
                            return


def exhaustive(ctx):
    return True


def replay(ctx, case):
    while len(SCRIPTS) <= case["script"]:
        SCRIPTS.append(gen_script(ctx.rng("script", len(SCRIPTS) - 5)))
    one_case(ctx, case)
