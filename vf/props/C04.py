"""C04 — client messages reach exactly the addressed devices."""
from __future__ import annotations

from vf import routerx as X

LEVEL = "exploration"
RULE = ("real Router with recording devices (one of them a real generated Driver, so the real accepts() is exercised; one a "
        "catch-all device) and recording clients, stepped in lock-step with a reference model. Breadth-first over EVERY "
        "reachable model state of the bounded universe (devices, clients, per-client per-device BLOB policy); each state is "
        "re-created on a fresh real router by replaying its shortest history, then every state-changing operation "
        "(register device/client, unregister, re-register, enableBLOB x 3 values x device names) and the whole probe suite "
        "(every client-originated kind x device names {registered names, none, unknown} x every sender incl. anonymous; every "
        "device-originated kind) is applied and the exact multiset of deliveries compared; plus seeded random histories of "
        "length <= 60 in a 5x5 universe, and seeded RE-ENTRANT histories in which 1..3 endpoints send a message of their own from inside "
        "their delivery callback (each at most once per operation, never a state-changing message, so the expected multiset is the "
        "closure computed by the model whatever the router's iteration order). This check judges client-originated messages: exactly-once to accepting devices, none "
        "to others, never back to the sender, no device-bound kind to any client. A third universe has device names that differ in padding, case or inner blanks only (Cam, \"Cam \", \" Cam\", cam, \"Cam 2\"), two of them real drivers. non-trivial = every compared operation; "
        "distinct = hash(model state [and path, when reached by a non-shortest path], operation)")
ASSUMPTIONS = ["which clients the getProperties relay reaches is decided by C05",
               "enableBLOB from an unregistered sender is outside the quantifier"]
REQUIRED_EVENTS = ["histories_over_padded_and_case_variant_names", "states", "transitions", "client_originated_messages", "deliveries_observed", "reentrant_operations", "reentrant_sends_from_inside_a_delivery"]
EXHAUSTIVE_NOTE = "quick: universe 2 devices (A, real driver B) + catch-all x 2 clients, complete; thorough: 3 devices x 3 clients, complete"
QUICK_SHARDS = 4
JUDGE = "client"


EDGE_DEVICES = ["Cam", "Cam ", " Cam", "cam", "Cam 2", "*"]
EDGE_REAL = ("Cam ", "cam")


def universes(ctx):
    if ctx.thorough:
        return X.Universe(["A", "B", "*"], ["c0", "c1", "c2"])
    return X.Universe(["A", "B", "*"], ["c0", "c1"])


def run(ctx):
    uni = universes(ctx)
    ex = X.Explorer(ctx, uni, JUDGE, {"mode": "bfs", "uni": [uni.devices, uni.clients]})
    n = ex.bfs(shard=(ctx.mine if ctx.nshards > 1 else None))
    ctx.notes["model_states_enumerated"] = n
    big = X.Universe(["D0", "D1", "D2", "D3", "*"], ["c0", "c1", "c2", "c3", "c4"], real_drivers=("D1", "D3"))
    nh = 1200 if not ctx.thorough else 20000
    for i in range(nh):
        if ctx.mine(i):
            X.random_history(ctx, big, JUDGE, i, 60)
    for i in range(nh):
        if ctx.mine(i):
            X.reactive_history(ctx, big, JUDGE, i)
    # device names at the edge of what a name can be: the same word padded with white space, in another case, with inner blanks -
    # each is a device of its own, and a message goes to the one that accepts exactly the name it carries
    edge = X.Universe(EDGE_DEVICES, ["c0", "c1", "c2"], real_drivers=EDGE_REAL)
    for i in range(nh // 3):
        if ctx.mine(i):
            X.random_history(ctx, edge, JUDGE, 100000 + i, 40)
            ctx.count("histories_over_padded_and_case_variant_names")


def exhaustive(ctx):
    return True


def replay(ctx, case):
    devs, clis = case["uni"] if "uni" in case else (["A", "B", "*"], ["c0", "c1", "c2"])
    real = ("B",) if "B" in devs else EDGE_REAL if "Cam " in devs else ("D1", "D3")
    uni = X.Universe(devs, clis, real_drivers=real)
    if case.get("mode") == "reactive":
        X.reactive_history(ctx, uni, JUDGE, case["i"])
        return
    X.replay_history(ctx, uni, JUDGE, case["history"], case["op"])
    ctx.distinct.update([1, 2])
    ctx.evaluations += 1
