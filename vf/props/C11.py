"""C11 — garbage on the wire cannot hang, crash or bloat the receiver, and is skipped."""
from __future__ import annotations

import xml.etree.ElementTree as ET

from vf import bufmon
from vf.gen import junk as J
from vf.gen import messages as G
from vf.gen import partitions as P
from vf.ref.conform import nonconformities
from vf.ref.view import view_abstract, view_et, view_lib

LEVEL = "exploration"
RULE = ("Latin-1 streams assembled from protocol fragments (known/unknown openers and closers, attributes, quotes, '<' '>' '&', "
        "comments, CDATA, declarations, NUL, well-formed-but-invalid messages), random characters, valid messages and valid "
        "messages truncated at every position, fed to a real Buffer in generated fragmentations with threshold in "
        "{16,128,2048,disabled}. Monitors: logical step budget (termination), exception capture, callback recorder, retained "
        "length after every call, suffix invariant. Oracles: every delivered object is a conformant message that literally "
        "occurs in the stream at increasing positions; retained <= threshold; a valid message behind non-imitating text only is "
        "delivered at the call following its last character; behind imitating/truncated text it is delivered once threshold+1 "
        "further characters arrived. Isolation: through the real TCP server / client handlers, one connection of a process carries garbage "
        "(possibly ending inside a message) while 1..2 others carry clean streams, pieces interleaved: the clean connections deliver "
        "exactly their own messages, promptly. Differential: junk streams through one real handler of each kind (TCP server, TCP client "
        "control / BLOB mode, TTY server fed line by line) must be handled, piece by piece, exactly as a bare Buffer with that kind's "
        "threshold handles them (deliveries and retained length); a quarter of the transport runs take their client connection out of one shared indi.transport.client.tcp.TCP object that made a BLOB connection before (asyncio.open_connection replaced by in-memory streams). non-trivial = stream contains junk and the run cut inside a piece; "
        "distinct = hash(stream, threshold, cuts)")
ASSUMPTIONS = ["promptness is only demanded while the framer is provably synchronised (no '<'+registered-tag text retained before the message)",
               "with the threshold disabled no recovery after imitating junk is demanded",
               "a top-level <oneLight> is accepted as genuine because indipy registers it as a message kind"]
REQUIRED_EVENTS = ["process_calls", "deliveries", "prompt_obligations", "bounded_progress_obligations", "genuine_checks",
                   "streams_with_imitating_junk", "truncated_pieces", "isolation_runs", "isolation_obligations", "transport_junk_runs", "transport_junk_steps_compared"]

THRESHOLDS = [16, 128, 2048, None]
QUICK_SHARDS = 4


def assemble(pieces):
    stream = ""
    spans = []  # (root start, end, am)
    for label, text, am, tail in pieces:
        if label == "valid":
            body_end = len(stream) + len(text) - tail
            # root element start: skip an XML declaration
            s = 0
            while True:
                s = text.find("<", s)
                if s < 0 or not text.startswith("<?", s):
                    break
                s += 2
            spans.append((len(stream) + s, body_end, am))
        stream += text
    return stream, spans


def occurrences(stream):
    occ = []
    for t in J.KNOWN_TAGS:
        look = "<" + t
        p = stream.find(look)
        while p >= 0:
            occ.append(p)
            p = stream.find(look, p + 1)
    return sorted(set(occ))


def genuine_match(lib_view, et_view):
    """The delivered message must be the parse of that literal element."""
    ltag, lattrs, ltext, lkids = lib_view
    etag, eattrs, etext, ekids = et_view
    if ltag != etag:
        return False
    ea = dict(eattrs)
    for k, v in lattrs:
        if ea.get(k) != v:
            return False
    if ltext is not None and ltext != etext:
        return False
    if len(lkids) != len(ekids) and (lkids or G.GRAMMAR.get(ltag, {}).get("child")):
        return False        # (kinds without children ignore whatever is nested in them; a vector has exactly the children of its element)
    for lk, ek in zip(lkids, ekids):
        if not genuine_match(lk, ek):
            return False
    return True


def find_literal(stream, start_from, lib_view, gt_positions):
    # Among the literal elements the delivered message can be the parse of, take the one that ENDS first: a stray opener and its
    # closer may enclose valid messages of the same kind (<message device="a"> ... <message/> ... </message>), and what the buffer
    # delivers first is the inner, earlier-complete one - which must not be booked on the enclosing element.
    tag = lib_view[0]
    look = "<" + tag
    best = None
    i = stream.find(look, start_from)
    while i >= 0 and (best is None or i < best[1]):
        for j in gt_positions:
            if j <= i:
                continue
            if best is not None and j + 1 >= best[1]:
                break
            sub = stream[i:j + 1]
            try:
                el = ET.fromstring(sub)
            except Exception:
                continue
            if genuine_match(lib_view, view_et(el)):
                best = (i, j + 1)
            break  # the shortest well-formed element at i is the only candidate
        i = stream.find(look, i + 1)
    return best


def check_stream(ctx, pieces, thr, cuts, case):
    stream, spans = assemble(pieces)
    chunks = P.cut(stream, cuts)
    res = bufmon.feed(chunks, thr)
    ctx.count("process_calls", len(res.after) + (1 if res.error else 0))
    ctx.count("deliveries", len(res.delivered))
    tmode = "threshold-disabled" if thr is None else "threshold-enabled"
    detail = {"stream": stream, "chunks": chunks, "threshold": thr,
              "labels": [(p[0], p[1]) for p in pieces]}
    if res.error:
        j, kind, text = res.error
        got_none = any(m is None for _, m in res.delivered)
        ctx.violate(f"process-{kind}:{tmode}" + (":callback-given-None" if got_none else ""),
                    f"Buffer.process {kind}s on chunk {j}: {text}", case, detail)
        return
    # bounded retention + suffix invariant
    for j, st in enumerate(res.after):
        if thr is not None and st["data_len"] > thr:
            ctx.violate("retains-more-than-threshold", f"{st['data_len']} characters retained after chunk {j}, threshold {thr}", case, detail)
            return
        if not st["suffix_ok"]:
            ctx.violate("retained-text-not-a-suffix", f"after chunk {j} the buffer holds text that is not a suffix of the input", case, detail)
            return
    # genuineness
    gts = [k for k, ch in enumerate(stream) if ch == ">"]
    pos = 0
    delivered_spans = []
    for j, m in res.delivered:
        ctx.count("genuine_checks")
        try:
            v = view_lib(m)
        except Exception:
            ctx.violate(f"callback-given-non-message:{tmode}", f"callback received {m!r}", case, detail)
            return
        bad = nonconformities(v)
        if bad:
            ctx.violate(f"delivers-nonconformant-message:{bad[0][0]}", f"delivered {v} : {bad}", case, detail)
            return
        hit = find_literal(stream, pos, v, gts)
        if hit is None:
            anywhere = find_literal(stream, 0, v, gts)
            ctx.violate("delivers-message-not-in-stream" if anywhere is None else "delivers-out-of-order-or-twice",
                        f"delivered message {v} does not occur in the input at/after offset {pos}", case, detail)
            return
        delivered_spans.append((hit[0], hit[1], j))
        pos = hit[1]
    # completeness / promptness obligations
    occ = occurrences(stream)
    benign = set()
    for s, e, am in spans:
        if thr is None or (e - s) <= thr:
            for p in occ:
                if s <= p < e:
                    benign.add(p)
    hostile = [p for p in occ if p not in benign]
    sync_starts = [0] + [st["fed"] - st["data_len"] for st in res.after]
    fed_after = [st["fed"] for st in res.after]
    for s, e, am in spans:
        if thr is not None and (e - s) > thr:
            ctx.count("valid_longer_than_threshold_not_demanded")
            continue
        if any(a < s and e <= b for (a, b, j) in delivered_spans):
            # junk around it happened to form a genuine message that ENCLOSES this one (e.g. an unclosed oneBLOB closed
            # later): it was consumed as part of that message's content
            ctx.count("valid_enclosed_by_a_delivered_message_not_demanded")
            continue
        # chunk index at which the last character has arrived
        due = next(k for k, f in enumerate(fed_after) if f >= e)
        # the delivery that discharges this obligation: a delivered message equal to this literal element, handed over
        # no earlier than the chunk that completed it (an identical element elsewhere in the stream must not be
        # mistaken for it)
        try:
            et = view_et(ET.fromstring(stream[s:e]))
        except Exception:
            continue
        cands = [j for (j, m) in res.delivered if j >= due and genuine_match(view_lib(m), et)]
        dj = min(cands) if cands else None
        synced = False
        for k, S in enumerate(sync_starts):
            if S > s:
                continue
            if k > 0 and fed_after[k - 1] > e:
                break
            if not any(S <= p < s for p in hostile):
                synced = True
                break
        if synced:
            ctx.count("prompt_obligations")
            if dj is None or dj > due:
                ctx.violate(f"valid-message-delayed-or-lost-behind-plain-junk:{tmode}",
                            f"message at [{s},{e}) has only non-imitating text before it but was "
                            f"{'never delivered' if dj is None else f'delivered at chunk {dj}, complete at chunk {due}'}",
                            case, dict(detail, span=[s, e]))
                return
        elif thr is not None:
            last = next((k for k, f in enumerate(fed_after) if f >= e + thr + 1), None)
            if last is None:
                ctx.count("progress_obligation_not_reached")
                continue
            ctx.count("bounded_progress_obligations")
            if dj is None or dj > last:
                ctx.violate("valid-message-not-recovered-after-junk",
                            f"message at [{s},{e}) still undelivered after {thr + 1} further characters", case, dict(detail, span=[s, e]))
                return
        else:
            ctx.count("no_recovery_demanded_threshold_disabled")


def flush_tail(rng, thr):
    """Plain text that pushes everything past the threshold."""
    n = (thr or 0) + 2
    return ("junk", "".join(rng.choice("abcdefghij klmnop") for _ in range(n)), None, 0)


def one_case(ctx, case):
    rng = ctx.rng("stream", case["i"])
    if case.get("mode") == "trunc":
        am, text, tail = J.small_valid(rng)
        body = text[:len(text) - tail] if tail else text
        k = case["k"] + 1
        if k >= len(body):
            return
        am2, text2, tail2 = J.small_valid(rng)
        pieces = [("truncated", body[:k], am, 0), ("valid", text2, am2, tail2)]
        flavour = "truncated-at-every-position"
    else:
        flavour, pieces = J.gen_stream(rng, case.get("flavour"))
    thr = case["thr"]
    if thr is not None and case.get("flush", True):
        pieces = pieces + [flush_tail(rng, thr)]
    stream, spans = assemble(pieces)
    n = len(stream)
    crng = ctx.rng("cuts", case["i"], case.get("c", 0))
    mode = case.get("cutmode", "random")
    if mode == "whole":
        cuts = []
    elif mode == "char":
        cuts = list(range(1, n))
    elif mode == "fixed":
        cuts = list(range(case.get("size", 7), n, case.get("size", 7)))
    elif mode == "pieces":
        cuts = []
        acc = 0
        for p in pieces:
            acc += len(p[1])
            cuts.append(acc)
    else:
        cuts = P.random_cuts(crng, n, crng.choice([1, 2, 3, 5, 9, 17]))
    labels = {p[0] for p in pieces}
    if "imitating" in labels:
        ctx.count("streams_with_imitating_junk")
    if "truncated" in labels:
        ctx.count("truncated_pieces")
    check_stream(ctx, pieces, thr, cuts, case)
    ctx.seen("flavours", flavour)
    nontrivial = bool(labels - {"valid"}) and (len(cuts) > 0)
    ctx.case_fast((case["i"], case.get("mode"), case.get("k"), thr, tuple(cuts)), nontrivial=nontrivial)
    if case["i"] % 211 == 0 and case.get("c", 0) == 0:
        ctx.sample({"flavour": flavour, "threshold": thr, "pieces": [(p[0], p[1]) for p in pieces], "cuts": cuts[:20]})


def isolation_case(ctx, i):
    """Garbage on ONE connection of a process: the other connections - whose own streams are clean - must deliver exactly their
    own messages, each as soon as its last character arrived, and nobody may be handed a message that nobody sent."""
    from vf import transportx as T
    rng = ctx.rng("isolation", i)
    kind = ["server-tcp", "client-tcp"][i % 2]
    flavour, jp = J.gen_stream(rng, rng.choice(["imitating", "truncated", "only-junk", "mixed"]))
    junk = "".join(p[1] for p in jp)
    if rng.random() < 0.5:
        # ends inside a message
        am, text, tail = J.small_valid(rng)
        junk += text[:rng.randrange(1, len(text))]
    enc = lambda t: t.encode("latin1", "xmlcharrefreplace").decode("latin1")
    junk = enc(junk)
    clean = []
    for k in range(rng.choice([1, 2])):
        stream, ends, ams = "", [], []
        for _ in range(rng.choice([1, 2, 3])):
            am, text, tail = J.small_valid(rng)
            text = enc(text)
            stream += text
            ends.append(len(stream) - tail)
            ams.append(am)
        clean.append((stream, ends, ams))
    pieces = [P.cut(junk, P.random_cuts(rng, len(junk), rng.choice([1, 2, 4])))]
    for stream, ends, ams in clean:
        pieces.append(P.cut(stream, P.random_cuts(rng, len(stream), rng.choice([1, 2, 3, 6]))))
    how = ["round-robin", "random", "junk-first", "junk-first-then-hangs-up"][(i // 2) % 4]
    if how.startswith("junk-first"):
        schedule = [0] * len(pieces[0]) + T.interleavings(rng, [0] + [len(p) for p in pieces[1:]], "random")
    else:
        schedule = T.interleavings(rng, [len(p) for p in pieces], how)
    eof_order = list(range(len(pieces)))
    res, stats = T.run(kind, pieces, schedule, eof_order=eof_order)
    ctx.count("isolation_runs")
    ctx.count("process_calls", stats["calls"])
    case = {"mode": "isolation", "i": i}
    detail = {"kind": kind, "schedule": schedule, "pieces": pieces, "how": how}
    for ci, what, text in res.errors:
        if ci != 0 or what != "receive-loop-does-not-end-at-eof":
            ctx.violate(f"isolation:{what}:{kind}:{'junk' if ci == 0 else 'clean'}-connection", f"connection {ci}: {what} {text}", case, detail)
            return
    if res.foreign:
        ctx.violate(f"isolation:delivery-attributed-to-nobody:{kind}", f"{res.foreign[0]}", case, detail)
        return
    for step, (ci, fed, ndel) in enumerate(res.after):
        if ci == 0:
            continue
        ends = clean[ci - 1][1]
        due = sum(1 for e in ends if e <= fed)
        ctx.count("isolation_obligations")
        if ndel != due:
            ctx.violate(f"isolation:clean-connection-{'starved' if ndel < due else 'given-foreign-messages'}:{kind}:{how}",
                        f"after feed step {step} the clean connection {ci} had received {fed} characters = {due} complete messages, "
                        f"but {ndel} were delivered to it (connection 0 carries garbage)", case, detail)
            return
    for ci, (stream, ends, ams) in enumerate(clean, start=1):
        want = [view_abstract(a) for a in ams]
        got = [v for _, v in res.delivered[ci]]
        ctx.count("deliveries", len(got))
        if got != want:
            ctx.violate(f"isolation:clean-connection-delivers-other-sequence:{kind}", f"connection {ci}: got {got!r:.300}, sent {want!r:.300}", case, detail)
            return


def transport_junk_case(ctx, i):
    """A junk stream through ONE real connection handler (TCP server, TCP client in control and BLOB mode, TTY server - the latter
    fed line by line): after every piece the handler must have delivered exactly what a bare Buffer with the threshold that
    kind of connection is meant to have delivers for the same pieces, and must not retain more."""
    from vf import transportx as T
    rng = ctx.rng("transport-junk", i)
    kind, blob = [("server-tcp", False), ("client-tcp", False), ("client-tcp", True), ("server-tty", False),
                  ("client-tcp-object", False), ("server-tcp", False), ("client-tcp-object", True), ("server-tty", False)][i % 8]
    flavour, jp = J.gen_stream(rng)
    stream = "".join(p[1] for p in jp)
    if rng.random() < 0.3:
        stream += "x" * rng.choice([50, 300, 2500])          # quiet junk after the last message
    stream = stream.encode("latin1", "xmlcharrefreplace").decode("latin1")
    if kind == "server-tty":
        stream = stream.replace("\x00", " ")
        # a terminal delivers lines; junk may sit on the same line as a message, the last line may be unterminated
        lines = stream.split("\n")
        pieces = [l + "\n" for l in lines[:-1]] + ([lines[-1]] if lines[-1] else [])
        pieces = [p for p in pieces if p]
        if rng.random() < 0.5:
            pieces = [q for p in pieces for q in P.cut(p, P.random_cuts(rng, len(p), 1))]
    else:
        pieces = P.cut(stream, P.random_cuts(rng, len(stream), rng.choice([1, 2, 5, 9])))
    pieces = [p for p in pieces if p]
    if not pieces:
        return
    res, stats = T.run(kind, [pieces], [0] * len(pieces), for_blobs=[blob])
    ctx.count("transport_junk_runs")
    ctx.count("process_calls", stats["calls"])
    if stats.get("max_cpu", 0.0) > bufmon.CPU_LIMIT:
        ctx.violate(f"transport:process-hang:{kind}", f"one Buffer.process call inside the {kind} handler burnt {stats['max_cpu']:.2f} s of CPU time",
                    {"mode": "transport-junk", "i": i}, {"pieces": pieces})
        return
    ctx.seen("transport_junk_kinds", kind + (":blob-mode" if blob else ""))
    case = {"mode": "transport-junk", "i": i}
    detail = {"kind": kind, "blob_mode": blob, "pieces": pieces}
    for ci, what, text in res.errors:
        ctx.violate(f"transport:{what}:{kind}", f"{what} {text}", case, detail)
        return
    for step, ci, what, text in T.differential_problems(res):
        ctx.violate(f"transport:{what}:{kind}" + (":blob-mode" if blob else ""), text, case, detail)
        return
    ctx.count("transport_junk_steps_compared", len(res.after))


CUTMODES = ["whole", "char", "pieces", "fixed", "random", "random", "random"]


def run(ctx):
    try:
        _run(ctx)
    finally:
        finish_notes(ctx)


def _run(ctx):
    n = 2000 if not ctx.thorough else 50000
    idx = 0
    for i in range(n):
        if not ctx.mine(i):
            continue
        if ctx.enough():
            return
        for thr in THRESHOLDS:
            for c, mode in enumerate(CUTMODES if (ctx.thorough or i % 3 == 0) else ["pieces", "random"]):
                if thr == 2048 and mode == "char" and i % 5:
                    continue  # long flush tail, character by character: sampled
                one_case(ctx, {"i": i, "thr": thr, "c": c, "cutmode": mode})
    for i in range(800 if not ctx.thorough else 20000):
        if ctx.mine(i):
            isolation_case(ctx, i)
            ctx.case_fast(("isolation", i), nontrivial=True)
    for i in range(1200 if not ctx.thorough else 30000):
        if ctx.mine(i):
            transport_junk_case(ctx, i)
            ctx.case_fast(("transport-junk", i), nontrivial=True)
    # truncation of corpus messages at every position
    m = 32 if not ctx.thorough else 400
    for i in range(1_000_000, 1_000_000 + m):
        if not ctx.mine(i):
            continue
        for k in range(0, 400):
            if ctx.enough():
                return
            for thr in (128, 2048, None):
                one_case(ctx, {"i": i, "thr": thr, "mode": "trunc", "k": k, "cutmode": "pieces" if k % 2 else "random", "c": k})


def finish_notes(ctx):
    """Reach: which functions / lines of the real Buffer ran under the step budget."""
    sb = bufmon.stepbudget()
    funcs = sorted({fn for fn, ln in sb.lines})
    ctx.notes["buffer_functions_reached"] = funcs
    ctx.notes["buffer_lines_reached"] = len(sb.lines)
    ctx.notes["max_line_events_in_one_process_call"] = sb.max_steps
    for need in ("process", "_cleanup_buffer", "_cleanup_beginning", "_find_message_in_buffer"):
        if need not in funcs:
            ctx.mark_inconclusive(f"anchored mechanism Buffer.{need} was never executed under the monitor")


def replay(ctx, case):
    if case.get("mode") == "transport-junk":
        transport_junk_case(ctx, case["i"])
        ctx.case_fast(("replay",))
        return
    if case.get("mode") == "isolation":
        isolation_case(ctx, case["i"])
        ctx.case_fast(("replay",))
        return
    one_case(ctx, case)
