"""C07 — getProperties is answered with exactly the definitions asked for."""
from __future__ import annotations

from vf import devmon
from vf.gen import drivers as D
from vf.gen import histories as H
from vf.ref import driverview as DV
from vf.ref.view import view_lib

LEVEL = "exploration"
RULE = ("deployments of 1..3 generated drivers (1-3 groups, five vector kinds, three switch rules, printf and sexagesimal formats, "
        "numbers with and without min/max, initially disabled groups/vectors, inheritance depth <= 3) on a real Router, brought to "
        "a state by a bounded history of driver-side operations (assign, set_value, state, enable/disable of vectors, groups and "
        "elements, BLOBs set and unset); then EVERY (device, name) request with device in {each device, none, unknown} and name in "
        "{none, each property enabled or disabled, unknown} is sent by a recording client. Monitors: recorder on "
        "Router.process_message (messages drivers hand over during the request) and the self-validity monitor on every message any "
        "driver emits (serialise, re-parse, compare views, re-serialise). Oracle: the set of def messages equals the expected "
        "definitions computed from the generated definition and the driver's public attributes. non-trivial = a request that "
        "addresses at least one property; distinct = hash(deployment, history, request)")
ASSUMPTIONS = ["delProperty answers for disabled properties of addressed devices are allowed (they are not definitions)",
               "number values are compared numerically within the format's resolution (exact rendering is C10's subject)"]
REQUIRED_EVENTS = ["requests", "definitions_compared", "driver_emitted_messages_validated", "requests_named", "requests_unknown"]


QUICK_SHARDS = 4


def gen_case(ctx, i):
    rng = ctx.rng("case", i)
    ndev = rng.choice([1, 1, 2, 3])
    specs = [D.gen_spec(rng, name=f"DEV{k}") for k in range(ndev)]
    hist = []
    for _ in range(rng.choice([0, 2, 5, 10, 20])):
        k = rng.randrange(ndev)
        hist.append(H.gen_driver_op(rng, k, specs[k], allow=("assign", "set_value", "bool", "state", "venable", "genable", "eenable")))
    return {"i": i, "specs": specs, "history": hist}


def one_case(ctx, case):
    from indi import message as M
    from indi.routing import Router
    specs, hist = case["specs"], case["history"]
    tap = devmon.RouterTap(ctx)
    try:
        router = Router()
        drivers = []
        for spec in specs:
            cls = D.build(spec)
            drivers.append(cls(router=router))
        for drv, spec in zip(drivers, specs):
            miss = D.missing_groups(drv, spec)
            if miss:
                depth = len(spec["levels"])
                lv = D.group_level(spec, miss[0])
                ctx.violate(f"group-lost-in-inheritance:depth{depth}:defined-{depth - 1 - lv}-levels-up",
                            f"driver {spec['name']} (inheritance depth {depth}) has no group {miss}", case)
                ctx.case({"c": case["i"]}, nontrivial=True)
                return
        rec = devmon.RecClient()
        router.register_client(rec)
        tracks = [DV.Track(spec) for spec in specs]
        for op in hist:
            try:
                H.apply_driver_op(drivers[op[1]], specs[op[1]], op)
                tracks[op[1]].apply(op)
                ctx.count("history_ops")
            except Exception as e:
                ctx.count("history_ops_raised")
                ctx.seen("history_op_exceptions", type(e).__name__)
        tap.report_invalid(ctx, dict(case, phase="history"))
        # requests
        names = {None, "UNKNOWN_PROP"}
        for spec in specs:
            for ga, va, g, v in D.locate(spec):
                names.add(v["name"])
        devs = [None, "UNKNOWN_DEV"] + [s["name"] for s in specs]
        for dev in devs:
            for name in sorted(names, key=lambda x: (x is not None, str(x))):
                request(ctx, case, tap, router, rec, drivers, specs, tracks, dev, name)
                if ctx.enough():
                    return
    finally:
        tap.close()


def request(ctx, case, tap, router, rec, drivers, specs, tracks, dev, name):
    from indi import message as M
    kw = {"version": "1.7"}
    if dev is not None:
        kw["device"] = dev
    if name is not None:
        kw["name"] = name
    msg = M.GetProperties(**kw)
    # expectation BEFORE the request (reading .value raises Read events, harmless here)
    want = {}
    addressed = []
    for drv, spec, track in zip(drivers, specs, tracks):
        if dev is None or dev == spec["name"]:
            addressed.append(spec["name"])
            for pname, prop in DV.expected_device(drv, spec, track).items():
                if name is None or name == pname:
                    want[(spec["name"], pname)] = prop
    disabled = set()
    for drv, spec, track in zip(drivers, specs, tracks):
        for ga, va, g, v in D.locate(spec):
            if not DV.is_enabled(drv, ga, va, track):
                disabled.add((spec["name"], v["name"]))
    tap.clear()
    rcase = dict(case, request=[dev, name])
    ctx.count("requests")
    ctx.count("requests_named" if name is not None else "requests_all")
    if dev == "UNKNOWN_DEV" or name == "UNKNOWN_PROP":
        ctx.count("requests_unknown")
    try:
        router.process_message(msg, sender=rec)
    except Exception as e:
        ctx.violate(f"getProperties-raises:{type(e).__name__}", f"request {kw} raised {e!r}", rcase)
        ctx.case({"c": case["i"], "r": [dev, name]}, nontrivial=bool(want))
        return
    tap.report_invalid(ctx, rcase)
    got_defs = {}
    for ev in tap.events:
        if not ev["from_driver"]:
            continue
        m = ev["message"]
        kind = type(m).__name__
        if kind.startswith("Def") and kind.endswith("Vector"):
            key = (m.device, m.name)
            if key in got_defs:
                ctx.violate("definition-sent-twice", f"{key} defined twice for request {kw}", rcase)
            got_defs[key] = view_lib(m)
        elif kind == "DelProperty":
            key = (m.device, m.name)
            if key not in disabled or m.device not in addressed:
                ctx.violate("delProperty-for-enabled-or-unaddressed-property", f"{key} deleted in answer to {kw}", rcase)
        else:
            ctx.count("other_kinds_in_answer")
    for key in got_defs:
        if key not in want:
            why = "unaddressed-device" if key[0] not in addressed else ("disabled-property" if key in disabled else
                                                                        ("other-than-named-property" if name is not None else "unexpected-property"))
            ctx.violate(f"unrequested-definition:{why}", f"request {kw} elicited a definition of {key}", rcase, {"got": sorted(map(str, got_defs))})
    for key, prop in want.items():
        if key not in got_defs:
            ctx.violate("definition-missing" + (":inherited-from-grandparent" if len(next(s for s in specs if s["name"] == key[0])["levels"]) >= 3 else ""),
                        f"request {kw} did not elicit a definition of {key}", rcase,
                        {"got": sorted(map(str, got_defs)), "want": sorted(map(str, want))})
            continue
        ctx.count("definitions_compared")
        diffs = DV.compare_def(got_defs[key], prop)
        if diffs:
            first = diffs[0].split(":")[0].split(" ")[0]
            ctx.violate(f"definition-differs:{first}", f"definition of {key} differs from the device: {diffs}", rcase,
                        {"got": got_defs[key], "want": prop})
    ctx.case({"c": case["i"], "r": [dev, name]}, nontrivial=bool(want),
             sample={"request": kw, "definitions": sorted(map(str, got_defs))} if want else None)


def run(ctx):
    n = 2400 if not ctx.thorough else 60000
    for i in range(n):
        if not ctx.mine(i):
            continue
        one_case(ctx, gen_case(ctx, i))
        if ctx.enough():
            break


def replay(ctx, case):
    one_case(ctx, case)
