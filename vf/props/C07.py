"""C07 — getProperties is answered with exactly the definitions asked for."""
from __future__ import annotations

from vf import devmon
from vf.gen import drivers as D
from vf.gen import histories as H
from vf.ref import driverview as DV
from vf.ref.view import view_lib

LEVEL = "exploration"
RULE = ("deployments of 1..3 generated drivers (1-3 groups, five vector kinds, three switch rules, printf and sexagesimal formats, "
        "numbers with and without min/max, initially disabled groups/vectors, inheritance depth <= 3) on a real Router, brought to "
        "a state by a bounded history of driver-side operations (assign, set_value, state, enable/disable of vectors, groups and "
        "elements, BLOBs set and unset); then EVERY (device, name) request with device in {each device, none, unknown} and name in "
        "{none, each property enabled or disabled, unknown} is sent by a recording client. Monitors: recorder on "
        "Router.process_message (messages drivers hand over during the request) and the self-validity monitor on every message any "
        "driver emits (serialise, re-parse, compare views, re-serialise). Oracle: the set of def messages equals the expected "
        "definitions computed from the generated definition and the driver's public attributes. Hardware-backed scenario: every "
        "element of a Number, a Text and a Switch property is refreshed by a plain Read handler from a model the harness owns; the model "
        "changes between requests and a read sometimes fails (the handler raises once - that answer is not judged); every later "
        "definition must list the model's current values. non-trivial = a request that "
        "addresses at least one property; distinct = hash(deployment, history, request)")
ASSUMPTIONS = ["delProperty answers for disabled properties of addressed devices are allowed (they are not definitions)",
               "number values are compared numerically within the format's resolution (exact rendering is C10's subject)"]
REQUIRED_EVENTS = ["requests", "definitions_compared", "driver_emitted_messages_validated", "requests_named", "requests_unknown",
                   "hardware_backed_requests", "requests_during_which_a_read_failed", "hardware_values_compared"]


QUICK_SHARDS = 4


def gen_case(ctx, i):
    rng = ctx.rng("case", i)
    ndev = rng.choice([1, 1, 2, 3])
    specs = [D.gen_spec(rng, name=f"DEV{k}") for k in range(ndev)]
    hist = []
    for _ in range(rng.choice([0, 2, 5, 10, 20])):
        k = rng.randrange(ndev)
        hist.append(H.gen_driver_op(rng, k, specs[k], allow=("assign", "set_value", "bool", "state", "venable", "genable", "eenable")))
    return {"i": i, "specs": specs, "history": hist}


def one_case(ctx, case):
    from indi import message as M
    from indi.routing import Router
    specs, hist = case["specs"], case["history"]
    tap = devmon.RouterTap(ctx)
    try:
        router = Router()
        drivers = []
        for spec in specs:
            cls = D.build(spec)
            drivers.append(cls(router=router))
        for drv, spec in zip(drivers, specs):
            miss = D.missing_groups(drv, spec)
            if miss:
                depth = len(spec["levels"])
                lv = D.group_level(spec, miss[0])
                ctx.violate(f"group-lost-in-inheritance:depth{depth}:defined-{depth - 1 - lv}-levels-up",
                            f"driver {spec['name']} (inheritance depth {depth}) has no group {miss}", case)
                ctx.case({"c": case["i"]}, nontrivial=True)
                return
        rec = devmon.RecClient()
        router.register_client(rec)
        tracks = [DV.Track(spec) for spec in specs]
        for op in hist:
            try:
                H.apply_driver_op(drivers[op[1]], specs[op[1]], op)
                tracks[op[1]].apply(op)
                ctx.count("history_ops")
            except Exception as e:
                ctx.count("history_ops_raised")
                ctx.seen("history_op_exceptions", type(e).__name__)
        tap.report_invalid(ctx, dict(case, phase="history"))
        # requests
        names = {None, "UNKNOWN_PROP"}
        for spec in specs:
            for ga, va, g, v in D.locate(spec):
                names.add(v["name"])
        devs = [None, "UNKNOWN_DEV"] + [s["name"] for s in specs]
        for dev in devs:
            for name in sorted(names, key=lambda x: (x is not None, str(x))):
                request(ctx, case, tap, router, rec, drivers, specs, tracks, dev, name)
                if ctx.enough():
                    return
    finally:
        tap.close()


def hardware_case(ctx, i):
    """Properties backed by 'hardware': plain Read handlers refresh every element from a model the harness owns (the documented
    reset_value idiom).  The hardware changes between requests and sometimes a read FAILS (the handler raises once): the answer to
    that request is not judged, but every later request must again list the hardware's current values."""
    from indi import message as M
    from indi.routing import Router
    from vf.ref import number as R
    rng = ctx.rng("hardware", i)
    fmts = [rng.choice(["%.2f", "%8.3f", "%.6m", "%d"]) for _ in range(3)]
    nel = [{"attr": f"e{k}", "name": f"N{k}", "label": None, "default": None, "enabled": True, "format": f, "min": -1e6, "max": 1e6, "step": 0}
           for k, f in enumerate(fmts)]
    tel = [{"attr": f"e{k}", "name": f"T{k}", "label": None, "default": None, "enabled": True} for k in range(2)]
    sel = [{"attr": f"e{k}", "name": f"S{k}", "label": None, "default": None, "enabled": True} for k in range(2)]

    def vec(attr, kind, name, els, **kw):
        v = {"attr": attr, "kind": kind, "name": name, "label": None, "state": None, "perm": None, "timeout": None, "enabled": True, "elements": els}
        v.update(kw)
        return v
    spec = {"name": "HW", "levels": [{"groups": [{"attr": "g", "name": "G", "enabled": True, "vectors": [
        vec("n", "Number", "NUM", nel), vec("t", "Text", "TXT", tel), vec("s", "Switch", "SW", sel, rule="AnyOfMany", default_on=None)]}]}]}
    hardware = {"N0": 1.0, "N1": 2.0, "N2": 3.0, "T0": "a", "T1": "b", "S0": "Off", "S1": "On"}
    failing = {}
    calls = {"n": 0, "raised": 0}

    def leaf_hook(ns, defs):
        from indi.device import events
        from indi.device.events import on
        sources = [defs["g"].vectors[va].elements[f"e{k}"] for va, n in (("n", 3), ("t", 2), ("s", 2)) for k in range(n)]

        def poll(self, event):
            name = event.element.name
            calls["n"] += 1
            if failing.get(name):
                failing[name] -= 1
                calls["raised"] += 1
                raise RuntimeError(f"hardware read of {name} timed out")
            event.element.reset_value(hardware[name])
        if i % 2:
            # the refresh logic lives in a helper object of its own (a hardware link), whose bound method is attached to the
            # element definitions directly - not a method of the driver
            class Link:
                def poll(self, event):
                    return poll(None, event)
            link = Link()
            for src in sources:
                src.attach_event_handler(events.Read, link.poll)
        else:
            ns["poll"] = on(sources, events.Read)(poll)

    router = Router()
    drv = D.build(spec, leaf_hook=leaf_hook)(router=router)
    rec = devmon.RecClient()
    router.register_client(rec)
    case = {"mode": "hardware", "i": i}
    poisoned = False
    for step in range(30):
        r = rng.random()
        if r < 0.4:
            k = rng.choice(list(hardware))
            if k[0] == "N":
                v = round(rng.uniform(-500, 500), 2)
                hardware[k] = int(v) if fmts[int(k[1])] == "%d" else v
            elif k[0] == "T":
                hardware[k] = "t%d" % rng.randrange(1000)
            else:
                hardware[k] = rng.choice(["On", "Off"])
            continue
        if r < 0.55:
            failing[rng.choice(list(hardware))] = 1
            continue
        name = rng.choice([None, "NUM", "TXT", "SW"])
        kw = {"version": "1.7", "device": rng.choice(["HW", None])}
        if name:
            kw["name"] = name
        kw = {k: v for k, v in kw.items() if v is not None}
        del rec.received[:]
        before = calls["raised"]
        try:
            router.process_message(M.GetProperties(**kw), sender=rec)
        except Exception:
            pass
        ctx.count("hardware_backed_requests")
        if calls["raised"] > before:
            ctx.count("requests_during_which_a_read_failed")
            poisoned = True
            continue                     # a read failed during this request: its answer is not judged
        defs = {m.name: m for m in rec.received if type(m).__name__.startswith("Def")}
        for vname, prefix, n in (("NUM", "N", 3), ("TXT", "T", 2), ("SW", "S", 2)):
            if name not in (None, vname):
                continue
            m = defs.get(vname)
            if m is None:
                ctx.violate("definition-missing:after-a-failed-read" if poisoned else "definition-missing:hardware-backed",
                            f"step {step}: request {kw} did not elicit a definition of {vname}", case)
                return
            for k in range(n):
                en = f"{prefix}{k}"
                child = next((c for c in m.children if c.name == en), None)
                have = child.value if child is not None else None
                want = hardware[en]
                ctx.count("hardware_values_compared")
                if prefix == "N":
                    ref = R.parse(str(have)) if have is not None else None
                    ok = ref is not None and abs(ref - want) <= R.tolerance(fmts[k], want)
                else:
                    ok = have == want
                if not ok:
                    ctx.violate("definition-lists-stale-value" + (":after-a-failed-read" if poisoned else ""),
                                f"step {step}: request {kw}: {vname}.{en} is defined with {have!r}, the hardware reads {want!r}", case)
                    return
    ctx.case_fast(("hardware", i), nontrivial=True)


def request(ctx, case, tap, router, rec, drivers, specs, tracks, dev, name):
    from indi import message as M
    kw = {"version": "1.7"}
    if dev is not None:
        kw["device"] = dev
    if name is not None:
        kw["name"] = name
    msg = M.GetProperties(**kw)
    # expectation BEFORE the request (reading .value raises Read events, harmless here)
    want = {}
    addressed = []
    for drv, spec, track in zip(drivers, specs, tracks):
        if dev is None or dev == spec["name"]:
            addressed.append(spec["name"])
            for pname, prop in DV.expected_device(drv, spec, track).items():
                if name is None or name == pname:
                    want[(spec["name"], pname)] = prop
    disabled = set()
    for drv, spec, track in zip(drivers, specs, tracks):
        for ga, va, g, v in D.locate(spec):
            if not DV.is_enabled(drv, ga, va, track):
                disabled.add((spec["name"], v["name"]))
    tap.clear()
    rcase = dict(case, request=[dev, name])
    ctx.count("requests")
    ctx.count("requests_named" if name is not None else "requests_all")
    if dev == "UNKNOWN_DEV" or name == "UNKNOWN_PROP":
        ctx.count("requests_unknown")
    try:
        router.process_message(msg, sender=rec)
    except Exception as e:
        ctx.violate(f"getProperties-raises:{type(e).__name__}", f"request {kw} raised {e!r}", rcase)
        ctx.case({"c": case["i"], "r": [dev, name]}, nontrivial=bool(want))
        return
    tap.report_invalid(ctx, rcase)
    got_defs = {}
    for ev in tap.events:
        if not ev["from_driver"]:
            continue
        m = ev["message"]
        kind = type(m).__name__
        if kind.startswith("Def") and kind.endswith("Vector"):
            key = (m.device, m.name)
            if key in got_defs:
                ctx.violate("definition-sent-twice", f"{key} defined twice for request {kw}", rcase)
            got_defs[key] = view_lib(m)
        elif kind == "DelProperty":
            key = (m.device, m.name)
            if key not in disabled or m.device not in addressed:
                ctx.violate("delProperty-for-enabled-or-unaddressed-property", f"{key} deleted in answer to {kw}", rcase)
        else:
            ctx.count("other_kinds_in_answer")
    for key in got_defs:
        if key not in want:
            why = "unaddressed-device" if key[0] not in addressed else ("disabled-property" if key in disabled else
                                                                        ("other-than-named-property" if name is not None else "unexpected-property"))
            ctx.violate(f"unrequested-definition:{why}", f"request {kw} elicited a definition of {key}", rcase, {"got": sorted(map(str, got_defs))})
    for key, prop in want.items():
        if key not in got_defs:
            ctx.violate("definition-missing" + (":inherited-from-grandparent" if len(next(s for s in specs if s["name"] == key[0])["levels"]) >= 3 else ""),
                        f"request {kw} did not elicit a definition of {key}", rcase,
                        {"got": sorted(map(str, got_defs)), "want": sorted(map(str, want))})
            continue
        ctx.count("definitions_compared")
        diffs = DV.compare_def(got_defs[key], prop)
        if diffs:
            first = diffs[0].split(":")[0].split(" ")[0]
            ctx.violate(f"definition-differs:{first}", f"definition of {key} differs from the device: {diffs}", rcase,
                        {"got": got_defs[key], "want": prop})
    ctx.case({"c": case["i"], "r": [dev, name]}, nontrivial=bool(want),
             sample={"request": kw, "definitions": sorted(map(str, got_defs))} if want else None)


def run(ctx):
    n = 2400 if not ctx.thorough else 60000
    for i in range(n):
        if not ctx.mine(i):
            continue
        one_case(ctx, gen_case(ctx, i))
        if ctx.enough():
            break
    for i in range(600 if not ctx.thorough else 20000):
        if ctx.mine(i):
            hardware_case(ctx, i)


def replay(ctx, case):
    if case.get("mode") == "hardware":
        hardware_case(ctx, case["i"])
        return
    one_case(ctx, case)
