"""C20 — message equality is structural (DESIGN §3 C20)."""
from __future__ import annotations

import copy

from vf.gen import messages as G
from vf.ref.view import view_abstract, view_lib

LEVEL = "exploration"
RULE = ("seeded abstract messages over the whole grammar (21 kinds, sampled optional-attribute subsets, 0..5 children); "
        "for each, EVERY single-point perturbation is built (each attribute changed/dropped/added, text changed, each "
        "child at every index changed/dropped/duplicated/swapped/replaced by a part of another kind with the same name and value, "
        "kind changed to a sibling kind; a Number child holding the number 0 / 0.0 against the same child without a value; and edits made IN PLACE (or on a deep copy) after the two messages had been compared and rendered) and compared with == "
        "and != against the original, plus an independently rebuilt copy; a pair is non-trivial when the two structural "
        "views differ (perturbation) or are identical (copy); distinct = hash(original, perturbation)")
ASSUMPTIONS = ["the structural view (vf.ref.view) reads instance attributes only and strips text, except for the white-space-only perturbation where the stored values are compared as they are; '' == absent text, () == absent children, "
               "0 == '0' are not demanded to differ",
               "messages are built through the library constructors, as a user would"]
REQUIRED_EVENTS = ["pairs_unequal_expected", "pairs_equal_expected", "child_index_perturbations", "child_kind_pairs", "whitespace_only_pairs", "edits_after_a_comparison", "falsy_value_pairs"]
SHARDED = True

QUICK_SHARDS = 4
SIBLING = {
    "pingRequest": ["pingReply"], "pingReply": ["pingRequest"],
    "delProperty": ["message"],
}
for a in G.KINDS5:
    SIBLING[f"set{a}Vector"] = [f"set{b}Vector" for b in G.KINDS5 if b != a]
    SIBLING[f"def{a}Vector"] = [f"def{b}Vector" for b in G.KINDS5 if b != a]
for a in G.KINDS4:
    SIBLING[f"new{a}Vector"] = [f"new{b}Vector" for b in G.KINDS4 if b != a]
    # the same element kind in the other direction: set<X>Vector and new<X>Vector carry the very same one<X> children
    SIBLING[f"new{a}Vector"].append(f"set{a}Vector")
    SIBLING[f"set{a}Vector"].append(f"new{a}Vector")


def other_value(rng, tag, attr, cur, vocab):
    for _ in range(20):
        v = G.gen_attr_value(rng, tag, attr, vocab)
        if str(v) != str(cur) and str(v) != "":
            return v
    return str(cur) + "x"


def other_text(rng, kind, cur):
    for _ in range(20):
        if kind == "Switch":
            v = rng.choice(G.SWITCH)
        elif kind == "Light":
            v = rng.choice(G.STATES)
        elif kind == "Number":
            v = G.gen_number_text(rng)
        elif kind == "BLOB":
            v = G.gen_b64(rng, rng.choice([1, 2, 5]))[0]
        else:
            v = G.gen_string(rng, allow_empty=False)
        if v != cur and v.strip() != "":
            return v
    return (cur or "") + "x"


def perturbations(rng, am):
    """Yield (label, abstract message') — each differs from am in one point."""
    spec = G.GRAMMAR[am["tag"]]
    for a in list(am["attrs"]):
        m = copy.deepcopy(am)
        m["attrs"][a] = other_value(rng, am["tag"], a, am["attrs"][a], spec["vocab"])
        yield f"attr-changed:{a}", m
        if a in spec["opt"] and str(am["attrs"][a]) != "":
            m = copy.deepcopy(am)
            del m["attrs"][a]
            yield f"attr-dropped:{a}", m
    for a in spec["opt"]:
        if a not in am["attrs"]:
            m = copy.deepcopy(am)
            m["attrs"][a] = other_value(rng, am["tag"], a, "", spec["vocab"])
            yield f"attr-added:{a}", m
    if spec["text"] == "bloben":
        m = copy.deepcopy(am)
        m["text"] = rng.choice([v for v in G.BLOBEN if v != am["text"]])
        yield "text-changed", m
    ch = am.get("children")
    if ch is not None:
        ctag = spec["child"]
        pspec = G.PARTS[ctag]
        for i, c in enumerate(ch):
            m = copy.deepcopy(am)
            m["children"][i]["attrs"]["name"] = c["attrs"]["name"] + "_"
            yield f"child-name-changed@{i}", m
            if pspec["value"] != "BLOB" or ctag.startswith("one"):
                m = copy.deepcopy(am)
                m["children"][i]["text"] = other_text(rng, pspec["value"], c["text"])
                yield f"child-value-changed@{i}", m
            if c.get("text"):
                # same length, ONE character different (position: first, last, and a random one)
                t = c["text"]
                for pos in sorted({0, len(t) - 1, rng.randrange(len(t)), len(t) * 3 // 4}):
                    if pspec["value"] in ("Switch", "Light"):
                        break
                    repl = "A" if t[pos] != "A" else "B"
                    if pspec["value"] == "Number":
                        if not t[pos].isdigit():
                            continue
                        repl = "7" if t[pos] != "7" else "3"
                    m = copy.deepcopy(am)
                    m["children"][i]["text"] = t[:pos] + repl + t[pos + 1:]
                    yield f"child-value-one-char-flipped@{i}", m
            if c.get("text"):
                # text that differs in surrounding white space only (a padded number, a payload with a trailing newline)
                for k, t2 in enumerate((c["text"] + " ", " " + c["text"], c["text"] + "\n", "\t" + c["text"])):
                    m = copy.deepcopy(am)
                    m["children"][i]["text"] = t2
                    yield f"child-value-whitespace-added:{k}@{i}", m
            for a in c["attrs"]:
                if a == "name":
                    continue
                m = copy.deepcopy(am)
                m["children"][i]["attrs"][a] = str(c["attrs"][a]) + "9"
                yield f"child-attr-changed:{a}@{i}", m
            if "label" in pspec["opt"] and "label" not in c["attrs"]:
                m = copy.deepcopy(am)
                m["children"][i]["attrs"]["label"] = "L"
                yield f"child-attr-added:label@{i}", m
                # a label spelled exactly like the name is still a label: present in one message, absent in the other
                m = copy.deepcopy(am)
                m["children"][i]["attrs"]["label"] = c["attrs"]["name"]
                yield f"child-attr-added:label-equal-to-name@{i}", m
            m = copy.deepcopy(am)
            del m["children"][i]
            yield f"child-dropped@{i}", m
            m = copy.deepcopy(am)
            m["children"].insert(i, copy.deepcopy(c))
            yield f"child-duplicated@{i}", m
            if i + 1 < len(ch):
                m = copy.deepcopy(am)
                m["children"][i], m["children"][i + 1] = m["children"][i + 1], m["children"][i]
                yield f"child-swapped@{i}", m
        m = copy.deepcopy(am)
        m["children"].append(G.gen_part(rng, ctag, "extra_child"))
        yield "child-appended", m
    for sib in SIBLING.get(am["tag"], []):
        m = convert_kind(am, sib)
        if m is not None:
            yield f"kind-changed:{sib}", m
    if am["tag"].endswith("Vector") and not am.get("children"):
        # a vector without children against messages of kinds that never have any
        yield "kind-changed:getProperties", {"tag": "getProperties", "attrs": {"version": "1.7", "device": am["attrs"].get("device", "D")}, "text": None, "children": None}
        yield "kind-changed:delProperty", {"tag": "delProperty", "attrs": {"device": am["attrs"].get("device", "D"), "name": am["attrs"].get("name", "P")}, "text": None, "children": None}


def convert_kind(am, sib):
    sspec = G.GRAMMAR[sib]
    if G.GRAMMAR[am["tag"]]["child"] == sspec["child"] and sspec["child"]:
        # same part kind: the children are taken over unchanged, only the message kind differs
        m = {"tag": sib, "attrs": {a: v for a, v in am["attrs"].items() if a in sspec["req"] or a in sspec["opt"]}, "text": None,
             "children": copy.deepcopy(am.get("children") or [])}
        for a in sspec["req"]:
            if a not in m["attrs"]:
                if a in sspec["vocab"]:
                    m["attrs"][a] = sspec["vocab"][a][0]
                else:
                    return None
        return m
    m = {"tag": sib, "attrs": {}, "text": None, "children": None}
    for a, v in am["attrs"].items():
        if a in sspec["req"] or a in sspec["opt"]:
            m["attrs"][a] = v
    for a in sspec["req"]:
        if a not in m["attrs"]:
            if a in sspec["vocab"]:
                m["attrs"][a] = sspec["vocab"][a][0]
            else:
                return None
    if sspec["child"]:
        kind = G.PARTS[sspec["child"]]["value"]
        kids = []
        for c in am.get("children") or []:
            k = {"tag": sspec["child"], "attrs": {"name": c["attrs"]["name"]}, "text": c["text"]}
            if "label" in c["attrs"] and "label" in G.PARTS[sspec["child"]]["opt"]:
                k["attrs"]["label"] = c["attrs"]["label"]
            if kind == "Number":
                if sspec["child"].startswith("def"):
                    k["attrs"].update(format="%f", min=0, max=0, step=0)
                k["text"] = "1"
            elif kind == "Switch":
                k["text"] = "On"
            elif kind == "Light":
                k["text"] = "Ok"
            elif kind == "BLOB":
                if sspec["child"].startswith("one"):
                    k["attrs"].update(size=0, format="")
                k["text"] = None
            kids.append(k)
        m["children"] = kids
    return m


def check_pair(ctx, am, label, bm, case):
    try:
        a = G.lib_message(am)
        b = G.lib_message(bm)
    except Exception as e:
        ctx.count("unconstructible")
        return
    va, vb = view_lib(a), view_lib(b)
    # sanity of the harness: the library object must look like the abstract message
    differ = va != vb
    if not differ and label.startswith("child-value-whitespace"):
        # the structural view strips text (as an XML round trip does); here the stored text values themselves are compared
        differ = [getattr(c, "value", None) for c in getattr(a, "children", ())] != [getattr(c, "value", None) for c in getattr(b, "children", ())]
        if differ:
            ctx.count("whitespace_only_pairs")
    if not differ:
        ctx.count("perturbation_without_view_change")
        return
    ctx.count("pairs_unequal_expected")
    if "@" in label:
        ctx.count("child_index_perturbations")
    ctx.seen("perturbation_kinds", label.split("@")[0].split(":")[0])
    eq = a == b
    ne = a != b
    if eq or not ne:
        kind = label.split("@")[0].split(":")[0]
        last = ""
        if "@" in label:
            idx = int(label.split("@")[1])
            n = len(am.get("children") or [])
            last = "-last-child" if idx == n - 1 else "-non-last-child"
        ctx.violate(f"unequal-compare-equal:{kind}{last}",
                    f"messages differing by {label} compare equal (==:{eq}, !=:{ne})",
                    dict(case, pert=label), {"a": am, "b": bm})


KIND_SWAP_VALUE = {"Light": "Ok", "Switch": "On", "Number": "1", "Text": None, "BLOB": None}


def check_child_kind(ctx, am, case):
    """Children that differ only in their KIND (same name, same value text): the children sequence of an existing message is
    replaced, as user code may do, because the constructors (rightly) refuse a foreign part kind."""
    ch = am.get("children") or []
    spec = G.GRAMMAR[am["tag"]]
    if not ch:
        return
    ctag = spec["child"]
    prefix = "def" if ctag.startswith("def") else "one"
    for i, c in enumerate(ch):
        for other in G.PARTS:
            if other == ctag or not other.startswith(prefix):
                continue
            okind = G.PARTS[other]["value"]
            text = c.get("text")
            # a value text both kinds accept
            for t in (text, KIND_SWAP_VALUE.get(G.PARTS[ctag]["value"]), KIND_SWAP_VALUE.get(okind)):
                try:
                    a = G.lib_message(am)
                    b = G.lib_message(am)
                    mine = G.lib_part(dict(c, text=t))
                    attrs = {"name": c["attrs"]["name"]}
                    if other == "defNumber":
                        attrs.update(format="%f", min=0, max=0, step=0)
                    if other == "oneBLOB":
                        attrs.update(size=0, format="")
                    foreign = G.lib_part({"tag": other, "attrs": attrs, "text": t})
                except Exception:
                    continue
                ka = list(a.children)
                kb = list(b.children)
                ka[i] = mine
                kb[i] = foreign
                a.children, b.children = tuple(ka), tuple(kb)
                if view_lib(a) == view_lib(b):
                    ctx.count("perturbation_without_view_change")
                    break
                ctx.count("pairs_unequal_expected")
                ctx.count("child_kind_pairs")
                ctx.count("child_index_perturbations")
                ctx.seen("perturbation_kinds", "child-kind-changed")
                if a == b or not (a != b):
                    n = len(ch)
                    ctx.violate(f"unequal-compare-equal:child-kind-changed{'-last-child' if i == n - 1 else '-non-last-child'}",
                                f"{am['tag']}: child {i} is a {ctag} in one message and a {other} in the other (same name and value {t!r}) "
                                f"and they compare equal", dict(case, pert=f"child-kind-changed:{other}@{i}"), {"a": am})
                    return
                break


def check_after_comparison(ctx, am, case):
    """Equality has no memory: two equal messages are compared (and rendered), THEN one of them is edited in place - a child's
    value / name / label, an attribute deleted, a deep copy edited - and must compare unequal; edited back, equal again."""
    ch = am.get("children") or []
    a = G.lib_message(am)
    b = G.lib_message(copy.deepcopy(am))
    if not (a == b) or a != b:
        return                      # reported by check_copy
    try:
        a.to_dict(), b.to_dict(), repr(a), repr(b), hash
    except Exception:
        pass
    edits = []
    for i, c in enumerate(ch):
        edits.append((f"child-name@{i}", lambda m, i=i: (m.children[i], "name", str(m.children[i].name) + "_")))
        if c.get("text") and G.PARTS[c["tag"]]["value"] == "Text":
            edits.append((f"child-value@{i}", lambda m, i=i: (m.children[i], "value", str(m.children[i].value) + "x")))
        if "label" in G.PARTS[c["tag"]]["opt"]:
            edits.append((f"child-label@{i}", lambda m, i=i: (m.children[i], "label", "edited label")))
    for attr in ("device", "name", "message", "timestamp"):
        if attr in am["attrs"]:
            edits.append((f"attr:{attr}", lambda m, attr=attr: (m, attr, str(getattr(m, attr)) + "_")))
    for label, edit in edits:
        for via in ("in-place", "deep-copy"):
            target = b if via == "in-place" else copy.deepcopy(b)
            if via == "deep-copy" and not (target == a):
                ctx.violate("equal-compare-unequal:deep-copy", "a deep copy of an equal message compares unequal", case, {"a": am})
                return
            obj, name, new = edit(target)
            old = getattr(obj, name)
            setattr(obj, name, new)
            ctx.count("edits_after_a_comparison")
            eq, ne = (a == target), (a != target)
            setattr(obj, name, old)
            back = (a == target)
            if eq or not ne:
                n = len(ch)
                idx = int(label.split("@")[1]) if "@" in label else None
                pos = "" if idx is None else ("-last-child" if idx == n - 1 else "-non-last-child")
                ctx.violate(f"unequal-compare-equal:edited-after-a-comparison:{label.split('@')[0]}{pos}:{via}",
                            f"{am['tag']}: after comparing equal, {label} was edited ({via}) and the messages still compare equal", dict(case, pert=label), {"a": am})
                return
            if not back:
                ctx.violate(f"equal-compare-unequal:edited-back:{label.split('@')[0]}:{via}", f"{am['tag']}: {label} edited and restored, the messages no longer compare equal",
                            dict(case, pert=label), {"a": am})
                return


def check_falsy_value(ctx, am, case):
    """A value that is present but falsy - the number 0 or 0.0 handed to a part by a driver - is a value: a message whose
    child carries it differs from one whose child carries none (their wire forms differ too)."""
    ch = am.get("children") or []
    for i, c in enumerate(ch):
        if G.PARTS[c["tag"]]["value"] != "Number":
            continue
        for zero in (0, 0.0):
            ma, mb = copy.deepcopy(am), copy.deepcopy(am)
            ma["children"][i]["text"] = zero
            mb["children"][i]["text"] = None
            try:
                a, b = G.lib_message(ma), G.lib_message(mb)
                a2 = G.lib_message(copy.deepcopy(ma))
            except Exception:
                ctx.count("unconstructible")
                continue
            if view_lib(a) == view_lib(b):
                ctx.count("perturbation_without_view_change")
                continue
            ctx.count("pairs_unequal_expected")
            ctx.count("child_index_perturbations")
            ctx.count("falsy_value_pairs")
            ctx.seen("perturbation_kinds", "child-value-zero-vs-absent")
            n = len(ch)
            pos = "-last-child" if i == n - 1 else "-non-last-child"
            if a == b or not (a != b):
                ctx.violate(f"unequal-compare-equal:child-value-zero-vs-absent{pos}",
                            f"{am['tag']}: child {i} holds the number {zero!r} in one message and no value in the other and they compare equal",
                            dict(case, pert=f"child-value-zero-vs-absent@{i}"), {"a": ma, "b": mb})
                return
            if not (a == a2) or a != a2:
                ctx.violate("equal-compare-unequal:zero-valued-child", f"{am['tag']}: rebuilt copy with a child holding {zero!r} compares unequal", case, {"a": ma})
                return


def check_copy(ctx, am, case):
    a = G.lib_message(am)
    b = G.lib_message(copy.deepcopy(am))
    ctx.count("pairs_equal_expected")
    if not (a == b) or (a != b):
        ctx.violate("equal-compare-unequal", "independently rebuilt copy compares unequal", case, {"a": am})
    # parts too
    for ca, cb in zip(getattr(a, "children", None) or (), getattr(b, "children", None) or ()):
        if not (ca == cb) or (ca != cb):
            ctx.violate("equal-parts-compare-unequal", "rebuilt part compares unequal", case, {"a": am})


def check_parts(ctx, am, case):
    """Part-level equality: parts that differ in one point must be unequal."""
    ch = am.get("children") or []
    for i, c in enumerate(ch):
        base = G.lib_part(c)
        for label, mod in (("name", lambda d: d["attrs"].__setitem__("name", d["attrs"]["name"] + "_")),
                           ("value", lambda d: d.__setitem__("text", other_text(ctx.rng("p", i), G.PARTS[c["tag"]]["value"], d["text"])))):
            if label == "value" and c["tag"] == "defBLOB":
                continue
            d = copy.deepcopy(c)
            mod(d)
            try:
                other = G.lib_part(d)
            except Exception:
                continue
            ctx.count("part_pairs")
            if base == other or not (base != other):
                ctx.violate(f"unequal-parts-compare-equal:{label}", f"parts differing in {label} compare equal", case,
                            {"a": c, "b": d})


def one_case(ctx, case):
    rng = ctx.rng("case", case["i"])
    am = G.gen_message(rng, tag=case.get("tag"), nchildren=case.get("nchildren"))
    nontrivial = False
    n = 0
    for label, bm in perturbations(rng, am):
        n += 1
        check_pair(ctx, am, label, bm, case)
    check_copy(ctx, am, case)
    check_parts(ctx, am, case)
    check_child_kind(ctx, am, case)
    check_after_comparison(ctx, am, case)
    check_falsy_value(ctx, am, case)
    ctx.case({"am": am}, nontrivial=n > 0, sample={"message": am, "perturbations": n})


def run(ctx):
    n = 12000 if not ctx.thorough else 400000
    tags = G.ALL_TAGS
    for i in range(n):
        if not ctx.mine(i):
            continue
        tag = tags[i % len(tags)]
        nchildren = None
        if G.GRAMMAR[tag]["child"]:
            nchildren = [0, 1, 2, 3, 5, 2, 4][(i // len(tags)) % 7]
        one_case(ctx, {"i": i, "tag": tag, "nchildren": nchildren})


def replay(ctx, case):
    one_case(ctx, case)
