"""C15 — the client mirrors any server's property stream faithfully and survives it."""
from __future__ import annotations

import asyncio

from vf import bufmon, clientx as X, stack
from vf.gen import messages as G
from vf.instr import FakeWriter, LoopMonitor, Patch
from vf.ref.client import RefClient
from vf.ref.view import view_abstract, view_xml

LEVEL = "exploration"
RULE = ("well-formed server streams of 5..80 def*/set*/delProperty/message/ping/getProperties messages over a small universe (2 devices "
        "x 3 properties x 3 elements + unknown names) so that redefinition with another kind, partial updates, kind mismatches, "
        "unknown targets, empty and absent BLOB payloads and whole-device deletion all occur; written in foreign spellings, "
        "arbitrarily fragmented and fed to the real client ConnectionHandler.wait_for_messages (threshold enabled and disabled); further "
        "modes: straight into BaseClient.process_message, into a SnoopingClient, and into the real two-connection Client started through "
        "Client.start() whose BLOB connection comes up 0..40 loop iterations late. After EVERY message the client's public "
        "view is compared with an independent reference interpreter; the receive-loop task must stay alive, nothing may be raised, "
        "every Buffer.process call runs under a step budget. In the byte-stream modes one message in eight is preceded by an update of a known property that carries no state and no element: the mirror must stay as it is. non-trivial = a stream in which at least 3 messages changed the mirror; "
        "distinct = hash(stream, spelling seed, fragmentation, mode)")
ASSUMPTIONS = ["messages on a control-mode connection stay below its 2048-character threshold (BLOB-mode connections get payloads up to 6000 bytes)", "BLOB sizes in the stream are consistent with their payloads"]
REQUIRED_EVENTS = ["streams_with_passive_listeners", "updates_without_a_state_ahead_of_a_message", "streams", "messages_applied", "views_compared", "wire_mode_streams", "direct_mode_streams", "snoop_mode_streams", "client_mode_streams",
                   "whole_device_deletions", "redefinitions", "empty_blob_payloads"]
QUICK_SHARDS = 4
FRAGS = ["whole", "1", "random", "small", 1024]


async def run_stream(ctx, case):
    import indi.message as M
    rng = ctx.rng("stream", case["i"])
    msgs = X.gen_stream(rng, case["n"])
    mode = case["mode"]
    patch = Patch()
    stats = bufmon.guard_process(patch)
    ref = RefClient()
    changed = 0
    try:
        client = X.RecordingClient("snoop" if mode == "snoop" else "base")
        loop = asyncio.get_running_loop()
        mon = LoopMonitor(loop)
        task = None
        conns = None
        if mode == "client-start":
            # the real two-connection Client, started through Client.start() over in-memory connections; its BLOB connection takes
            # `blob_delay` loop iterations to come up while the server already answers on the control connection
            from indi.client.client import Client
            from indi.transport.client.tcp import ConnectionHandler as CH

            class MemConn:
                def __init__(self, delay):
                    self.delay, self.reader, self.handler = delay, None, None

                async def connect(self, callback, for_blobs=False):
                    for _ in range(self.delay):
                        await asyncio.sleep(0)
                    self.reader = asyncio.StreamReader()
                    self.handler = CH(self.reader, FakeWriter("c"), callback, for_blobs=for_blobs)
                    return self.handler

            conns = (MemConn(0), MemConn(case.get("blob_delay", 0)))
            client = Client(*conns)
            start_task = loop.create_task(client.start())
            for _ in range(5):
                await asyncio.sleep(0)
                if conns[0].reader is not None:
                    break
        if mode.startswith("wire"):
            from indi.transport.client.tcp import ConnectionHandler
            reader = asyncio.StreamReader()
            writer = FakeWriter("client")
            handler = ConnectionHandler(reader, writer, client.process_message, for_blobs=(mode == "wire-blobs"))
            task = loop.create_task(handler.wait_for_messages())
        frag = case["frag"]
        frng = ctx.rng("frag", case["i"])
        if case["i"] % 2 == 0:
            # an application listening: passive callbacks filtered by every combination of device / property / element and event type -
            # a filter may name a lower level and leave the upper ones open.  They observe; the mirror and the receive loop are judged.
            from indi.client import events as CE
            seen_events = []
            crng = ctx.rng("listeners", case["i"])
            for _ in range(crng.choice([2, 4, 7])):
                kw = {}
                if crng.random() < 0.5:
                    kw["device"] = crng.choice(X.DEVICES)
                if crng.random() < 0.5:
                    kw["vector"] = crng.choice(X.PROPS)
                if crng.random() < 0.6:
                    kw["element"] = crng.choice(X.ELEMS)
                if crng.random() < 0.5:
                    kw["event_type"] = crng.choice([CE.ValueUpdate, CE.StateUpdate, CE.DefinitionUpdate, CE.BaseEvent])
                client.onevent(callback=seen_events.append, **kw)
            ctx.count("streams_with_passive_listeners")
        ctx.count("streams")
        ctx.count(mode.split("-")[0] + "_mode_streams")
        for k, am in enumerate(msgs):
            if mode == "wire-blobs" and am["tag"] == "setBLOBVector" and am["children"] and frng.random() < 0.4:
                # the BLOB connection has no junk threshold: payloads far beyond 2048 characters must arrive
                text_, nbytes = G.gen_b64(frng, frng.choice([1600, 3000, 6000]))
                am["children"][0]["text"] = text_
                am["children"][0]["attrs"]["size"] = str(nbytes)
                ctx.count("long_payloads_on_the_blob_connection")
            sp = G.spellings(rng, 1)[0]
            text = G.write_xml(am, sp)
            view = view_xml(text)
            before = ref.view()
            ref.apply(view)
            after = ref.view()
            if before != after:
                changed += 1
            if am["tag"] == "delProperty" and "name" not in am["attrs"] and am["attrs"]["device"] in before:
                ctx.count("whole_device_deletions")
            if am["tag"].startswith("def") and am["attrs"]["name"] in before.get(am["attrs"]["device"], {}):
                ctx.count("redefinitions")
            if am["tag"] == "setBLOBVector" and any(c["attrs"].get("size") == "0" for c in am["children"]):
                ctx.count("empty_blob_payloads")
            known = [(d, p_, x["kind"]) for d, props in sorted(before.items()) for p_, x in sorted(props.items())]
            if mode in ("wire", "wire-blobs", "client-start") and known and frng.random() < 0.12:
                # Ahead of this message the server sends an update of a known property that carries NO state and lists no element
                # (the state attribute is optional in the INDI DTD).  Whether the client reads it as "nothing changes" or does not
                # accept it at all, the mirror stays as it is - in particular the property's state.
                d_, p_, kind_ = frng.choice(known)
                extra_ = frng.choice(["", ' timeout="5"', ' message="still here"', ' timestamp="2024-01-02T03:04:05"'])
                dq_ = chr(34)
                text = f'<set{kind_}Vector device="{G._esc_attr(d_, dq_, 2)}" name="{G._esc_attr(p_, dq_, 2)}"{extra_}/>\n' + text
                ctx.count("updates_without_a_state_ahead_of_a_message")
            mcase = dict(case, message_index=k)
            detail = {"message": text, "previous_messages": len(msgs[:k])}
            if mode == "client-start":
                data = text.encode("latin1", "xmlcharrefreplace")
                target = conns[0]
                if am["tag"] == "setBLOBVector":
                    for _ in range(500):                       # payloads travel on the BLOB connection, once it is up
                        if conns[1].reader is not None:
                            break
                        await asyncio.sleep(0)
                    target = conns[1]
                target.reader.feed_data(data)
                for _ in range(6):
                    await asyncio.sleep(0)
                for _ in range(500):                           # nothing is judged before Client.start() has returned
                    if start_task.done():
                        break
                    await asyncio.sleep(0)
                for _ in range(6):
                    await asyncio.sleep(0)
                failed = mon.failed()
                if failed:
                    ctx.violate(f"receive-loop-ended:client-start:{failed[0][0].split('.')[-1]}",
                                f"after message {k} ({am['tag']}), BLOB connection up after {case.get('blob_delay', 0)} iterations: {failed[0][0]} ended with {failed[0][1]}",
                                mcase, detail)
                    return changed
            elif mode.startswith("wire"):
                data = text.encode("latin1", "xmlcharrefreplace")
                pos = 0
                while pos < len(data):
                    if frag == "whole":
                        size = len(data)
                    elif frag == "1":
                        size = 1
                    elif frag == "random":
                        size = frng.choice([1, 2, 5, 17, 64, 300, 1024])
                    elif frag == "small":
                        size = frng.choice([1, 2, 3, 5, 7])
                    else:
                        size = int(frag)
                    reader.feed_data(data[pos:pos + size])
                    pos += size
                    await asyncio.sleep(0)
                    await asyncio.sleep(0)
                for _ in range(3):
                    await asyncio.sleep(0)
                if task.done():
                    exc = task.exception() if not task.cancelled() else None
                    kind = "process-hang" if exc is not None and "HangDetected" in repr(exc) else "receive-loop-ended"
                    ctx.violate(f"{kind}:{am['tag']}:{type(exc).__name__}", f"receive loop ended on message {k}: {exc!r}", mcase, detail)
                    return changed
            else:
                try:
                    msg = M.IndiMessage.from_string(text)
                except Exception as e:
                    ctx.violate(f"parser-rejects-well-formed-server-message:{am['tag']}", f"{e!r}", mcase, detail)
                    return changed
                try:
                    if mode == "snoop":
                        client.message_from_device(msg)
                    else:
                        client.process_message(msg)
                except Exception as e:
                    ctx.violate(f"process_message-raises:{am['tag']}:{type(e).__name__}", f"message {k}: {e!r}", mcase, detail)
                    return changed
            ctx.count("messages_applied")
            libview = stack.client_view(client)
            ctx.count("views_compared")
            diffs = X.views_equal(libview, after)
            if diffs:
                what = diffs[0][0]
                if am["tag"] == "delProperty" and "name" not in am["attrs"]:
                    what += ":after-whole-device-delProperty"
                ctx.violate(f"mirror-differs:{what}", f"after message {k} ({am['tag']}): {diffs[0][1]} (+{len(diffs) - 1} more)", mcase,
                            dict(detail, diffs=diffs[:5]))
                return changed
        if task is not None:
            reader.feed_eof()
            await asyncio.sleep(0)
            await asyncio.sleep(0)
            if not task.done() or task.exception() is not None:
                ctx.violate("receive-loop-does-not-end-at-eof", "wait_for_messages did not return at EOF", case)
        ctx.counters["buffer_process_calls_guarded"] = ctx.counters.get("buffer_process_calls_guarded", 0) + stats["calls"]
        return changed
    finally:
        patch.undo()


def one_case(ctx, case):
    changed = asyncio.run(run_stream(ctx, case))
    ctx.case((case["i"], case["n"], case["mode"], str(case["frag"])), nontrivial=changed >= 3,
             sample={"messages": case["n"], "mode": case["mode"], "fragmentation": case["frag"], "mirror_changing_messages": changed})


def run(ctx):
    n = 1500 if not ctx.thorough else 60000
    modes = ["wire", "wire", "wire-blobs", "direct", "snoop", "client-start"]
    for i in range(n):
        if not ctx.mine(i):
            continue
        rng = ctx.rng("plan", i)
        one_case(ctx, {"i": i, "n": rng.choice([5, 10, 20, 40, 80]), "mode": modes[i % len(modes)], "frag": FRAGS[(i // len(modes)) % len(FRAGS)],
                       "blob_delay": rng.choice([0, 1, 3, 10, 40])})
        if ctx.enough():
            break


def replay(ctx, case):
    one_case(ctx, case)
