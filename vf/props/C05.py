"""C05 — device messages fan out to every client, subject to its BLOB policy."""
from __future__ import annotations

from vf import routerx as X

LEVEL = "exploration"
RULE = ("real Router with recording devices (one of them a real generated Driver, so the real accepts() is exercised; one a "
        "catch-all device) and recording clients, stepped in lock-step with a reference model. Breadth-first over EVERY "
        "reachable model state of the bounded universe (devices, clients, per-client per-device BLOB policy); each state is "
        "re-created on a fresh real router by replaying its shortest history, then every state-changing operation "
        "(register device/client, unregister, re-register, enableBLOB x 3 values x device names) and the whole probe suite "
        "(every client-originated kind x device names {registered names, none, unknown} x every sender incl. anonymous; every "
        "device-originated kind) is applied and the exact multiset of deliveries compared; plus seeded random histories of "
        "length <= 60 in a 5x5 universe, and seeded RE-ENTRANT histories in which 1..3 endpoints send a message of their own from inside "
        "their delivery callback (each at most once per operation, never a state-changing message, so the expected multiset is the "
        "closure computed by the model whatever the router's iteration order). This check judges device-originated messages (and the "
        "getProperties relay): exactly-once to every registered client other than the sender whose policy for that device admits the "
        "kind (Never: everything but setBLOBVector, Also: everything, Only: setBLOBVector only), none to others; additionally the "
        "library's own clients' handshakes are observed on the wire. Separately, an enableBLOB that names no policy or an unknown word - built in eight ways, constructor and XML - is sent by one of three clients with random earlier settings: every client's delivery pattern (plain, BLOB) is probed before and after and must stay one of the three, unchanged for everybody but the sender's own device (where the default is accepted too); and a third universe of device names differing in padding or case only. non-trivial = every compared operation; "
        "distinct = hash(model state [and path, when reached by a non-shortest path], operation)")
ASSUMPTIONS = ["which devices a client-originated message reaches is decided by C04",
               "enableBLOB from an unregistered sender is outside the quantifier"]
REQUIRED_EVENTS = ["updates_of_a_driver_observed_at_its_own_snooping_client", "enableBLOB_without_a_policy_cases", "histories_over_padded_and_case_variant_names", "states", "transitions", "device_originated_messages", "deliveries_observed", "reentrant_operations", "reentrant_sends_from_inside_a_delivery", "library_client_handshake_scenarios"]
EXHAUSTIVE_NOTE = "quick: universe 2 devices (A, real driver B) + catch-all x 2 clients, complete; thorough: 3 devices x 3 clients, complete"
QUICK_SHARDS = 4
JUDGE = "device"


EDGE_DEVICES = ["Cam", "Cam ", " Cam", "cam", "Cam 2", "*"]
EDGE_REAL = ("Cam ", "cam")


def universes(ctx):
    if ctx.thorough:
        return X.Universe(["A", "B", "*"], ["c0", "c1", "c2"])
    return X.Universe(["A", "B", "*"], ["c0", "c1"])


async def _handshake_scenario(ctx, k):
    """The policies as the library's own clients announce them (BaseClient.blob_handshake: Never; Client.blob_handshake:
    Never on the control connection + Only on the BLOB connection), observed on the wire."""
    from indi.device import values
    from indi.routing import Router
    from vf import stack
    from vf.gen import drivers as D
    from vf.props.C08 import make_spec
    from vf.ref import xmlsplit
    from vf.ref.view import view_xml
    router = Router()
    drv = D.build(make_spec())(router=router)
    other = D.build(dict(make_spec(), name="CAM2"))(router=router)
    sess = stack.Session(router, seed=k, mode_c2s=["whole", "1", "random"][k % 3], mode_s2c=["whole", "1024", "small"][k % 3])
    client = await sess.make_client()
    snoop = other.snoop_device("CAM")            # an in-process BaseClient: announces Never
    await sess.quiesce()
    # a second in-process client that DOES want the camera's images (a guider): it announces Also, and afterwards its driver goes
    # on using the snooping API for other devices / properties - which must not touch what it announced for CAM
    import indi.message as M
    third = D.build(dict(make_spec(), name="GUIDE"))(router=router)
    gsnoop = third.snoop_device("CAM")
    gsnoop.send_message(M.EnableBLOB(device="CAM", value=["Also", "Only"][k % 2]))
    if k % 3:
        third.snoop_device("CAM2")
    if k % 3 == 2:
        third.snoop_device("CAM", "TXT")
    await sess.quiesce()
    # the camera driver withdraws a property nobody was ever told about, and one it withdrew before: every client - also those
    # registered after the in-process ones - must still be served afterwards
    if k % 2:
        try:
            router.process_message(M.DelProperty(device="CAM", name="NEVER_DEFINED"), sender=drv)
            tv_ = D.vector_of(drv, "g", "t")
            tv_.enabled = False
            router.process_message(M.DelProperty(device="CAM", name="TXT"), sender=drv)      # a second time
            tv_.enabled = True
            await sess.quiesce()
            ctx.count("repeated_or_unknown_delProperty_before_the_traffic")
        except Exception as e:
            ctx.violate(f"device-message-raises-back-into-the-driver:{type(e).__name__}", f"a delProperty fanned out by the router raised {e!r} in the sending driver",
                        {"mode": "handshake", "k": k})
            return
    marks = [len(l.s_writer.data) for l in client._vf_links]
    nsn = len(stack.client_view(snoop).get("CAM", {}))
    D.element_of(drv, "g", "t", "e0").value = f"text{k}"
    D.element_of(drv, "g", "b", "e0").value = values.BLOB(b"blob%d" % k, ".b")
    await sess.quiesce()
    ctx.count("library_client_handshake_scenarios")
    case = {"mode": "handshake", "k": k}
    kinds = []
    for l, m in zip(client._vf_links, marks):
        els, rest = xmlsplit.split(l.s_writer.data[m:])
        kinds.append([view_xml(e)[0] for e in els])
    if "setBLOBVector" in kinds[0] or "setTextVector" not in kinds[0]:
        ctx.violate("control-connection-policy-not-never", f"control connection (announced Never) received {kinds[0]}", case)
    if "setBLOBVector" not in kinds[1] or "setTextVector" in kinds[1]:
        ctx.violate("blob-connection-policy-not-only", f"BLOB connection (announced Only) received {kinds[1]}", case)
    gv = stack.client_view(gsnoop).get("CAM", {})
    gblob = gv.get("IMG", {}).get("elements", {}).get("IMG_E0", (None, None))[1]
    from vf import fullstack
    if fullstack.norm_blob(gblob) != ("blob", b"blob%d" % k, ".b"):
        ctx.violate("snooping-client-that-enabled-blobs-misses-the-blob" + (":after-snooping-something-else" if k % 3 else ""),
                    f"the in-process client that announced {['Also', 'Only'][k % 2]} for CAM holds {gblob!r}", case)
    gtext = gv.get("TXT", {}).get("elements", {}).get("TXT_E0", (None, None))[1]
    if (k % 2 == 0) != (gtext == f"text{k}"):
        ctx.violate("snooping-client-non-blob-traffic-against-its-policy", f"policy {['Also', 'Only'][k % 2]}: text shown {gtext!r}", case)
    sv = stack.client_view(snoop).get("CAM", {})
    if sv.get("TXT", {}).get("elements", {}).get("TXT_E0", (None, None))[1] != f"text{k}":
        ctx.violate("snooping-client-misses-non-blob-update", f"snooping client shows {sv.get('TXT')}", case)
    if sv.get("IMG", {}).get("elements", {}).get("IMG_E0", (None, None))[1] is not None:
        ctx.violate("snooping-client-received-blob-despite-never", "a snooping client (Never) holds a BLOB payload", case)
    # A driver's snooping client is a registered client other than that driver: what CAM2 itself publishes reaches CAM2's own
    # snooping client like everybody else (it got CAM2's definitions when the connected client's handshake made every device define).
    D.element_of(other, "g", "t", "e0").value = f"own{k}"
    await sess.quiesce()
    own = stack.client_view(snoop).get("CAM2", {}).get("TXT", {}).get("elements", {}).get("TXT_E0", (None, None))[1]
    ctx.count("updates_of_a_driver_observed_at_its_own_snooping_client")
    if own != f"own{k}":
        ctx.violate("snooping-client-misses-update-of-its-own-driver", f"CAM2 published TXT_E0 = 'own{k}'; CAM2's own snooping client (a registered client "
                                                                         f"other than the sender) shows {own!r}", case)
    ctx.case(("handshake", k), nontrivial=True, sample={"scenario": "library clients announce their policies", "control": kinds[0], "blob": kinds[1]})
    await sess.close()


BEHAVIOUR = {"Never": (1, 0), "Also": (1, 1), "Only": (0, 1)}
INVALID_HOW = ["constructor-without-value", "constructor-value-None", "constructor-unknown-word", "constructor-empty-word", "constructor-lower-case",
               "xml-without-value", "xml-only-white-space", "xml-unknown-word"]


def invalid_policy_case(ctx, k):
    """An enableBLOB that names no policy (an empty element), or a word that is none of the three, is no setting: what every
    client receives afterwards is still decided by its most recent Never / Also / Only - for the sender and that device the default
    (Never) is accepted too - and nobody ever ends up with a delivery pattern that is none of the three."""
    import indi.message as M
    from indi.routing import Client, Device, Router
    rng = ctx.rng("invalid-policy", k)
    router = Router()
    got = {}

    class RecC(Client):
        def __init__(s, cid):
            s.cid = cid

        def message_from_device(s, message):
            got.setdefault(s.cid, []).append(message)

    class Dev(Device):
        def __init__(s, name):
            s.name = name

        def accepts(s, device):
            return device is None or device == s.name

        def message_from_client(s, message):
            pass

    devs = {n: Dev(n) for n in ("CAM", "CAM2")}
    clients = {c: RecC(c) for c in ("a", "b", "c")}
    for d in devs.values():
        router.register_device(d)
    for c in clients.values():
        router.register_client(c)
    policy = {}
    for c in clients:
        for n in devs:
            if rng.random() < 0.7:
                policy[(c, n)] = rng.choice(X.POLICIES)
                router.process_message(M.EnableBLOB(device=n, value=policy[(c, n)]), sender=clients[c])

    def probe():
        out = {}
        for n, d in devs.items():
            got.clear()
            router.process_message(X.make_message(rng.choice(["setTextVector", "defNumberVector", "message", "delProperty"]), n), sender=d)
            plain = {c: len(v) for c, v in got.items()}
            got.clear()
            router.process_message(X.make_message("setBLOBVector", n), sender=d)
            for c in clients:
                out[(c, n)] = (plain.get(c, 0), len(got.get(c, [])))
        return out

    how = INVALID_HOW[k % len(INVALID_HOW)]
    who, target = rng.choice(sorted(clients)), rng.choice(sorted(devs))
    case = {"mode": "invalid-policy", "k": k, "how": how}
    before = probe()
    for key, b in before.items():
        if b != BEHAVIOUR[policy.get(key, "Never")]:
            ctx.violate(f"policy-{policy.get(key, 'unset')}-not-honoured", f"{key}: (plain, BLOB) deliveries {b} under {policy.get(key, 'no setting')}", case)
            return
    msg = None
    try:
        if how == "constructor-without-value":
            msg = M.EnableBLOB(device=target)
        elif how == "constructor-value-None":
            msg = M.EnableBLOB(device=target, value=None)
        elif how.startswith("constructor-"):
            msg = M.EnableBLOB(device=target, value={"unknown-word": "Sometimes", "empty-word": "", "lower-case": "also"}[how[12:]])
        else:
            text = {"xml-without-value": f'<enableBLOB device="{target}"/>', "xml-only-white-space": f'<enableBLOB device="{target}">  \n</enableBLOB>',
                    "xml-unknown-word": f'<enableBLOB device="{target}">Both</enableBLOB>'}[how]
            msg = M.IndiMessage.from_string(text)
    except Exception:
        ctx.count("enableBLOB_without_a_policy_refused_when_built")
    if msg is not None:
        ctx.count("enableBLOB_without_a_policy_accepted_when_built")
        try:
            router.process_message(msg, sender=clients[who])
        except Exception:
            ctx.count("enableBLOB_without_a_policy_refused_by_the_router")
    after = probe()
    ctx.count("enableBLOB_without_a_policy_cases")
    for key, b in after.items():
        allowed = {before[key]} | ({BEHAVIOUR["Never"]} if key == (who, target) else set())
        if b not in allowed:
            whom = "its-sender" if key == (who, target) else "another-client-or-device"
            pattern = [p for p, v in BEHAVIOUR.items() if v == b]
            ctx.violate(f"enableBLOB-without-a-policy-changes-delivery-to-{whom}:{how}:now-{pattern[0] if pattern else 'none-of-the-three'}",
                        f"{how} from {who} for {target}: {key} received (plain, BLOB) {before[key]} before and {b} after "
                        f"(settings: {policy.get(key, 'none')})", case)
            return
    ctx.case(("invalid-policy", k), nontrivial=True)


def run(ctx):
    import asyncio
    for k in range(160 if not ctx.thorough else 4000):
        if ctx.mine(k):
            invalid_policy_case(ctx, k)
    for k in range(6 if not ctx.thorough else 60):
        if ctx.mine(k):
            asyncio.run(_handshake_scenario(ctx, k))
    uni = universes(ctx)
    ex = X.Explorer(ctx, uni, JUDGE, {"mode": "bfs", "uni": [uni.devices, uni.clients]})
    n = ex.bfs(shard=(ctx.mine if ctx.nshards > 1 else None))
    ctx.notes["model_states_enumerated"] = n
    big = X.Universe(["D0", "D1", "D2", "D3", "*"], ["c0", "c1", "c2", "c3", "c4"], real_drivers=("D1", "D3"))
    nh = 1200 if not ctx.thorough else 20000
    for i in range(nh):
        if ctx.mine(i):
            X.random_history(ctx, big, JUDGE, i, 60)
    for i in range(nh):
        if ctx.mine(i):
            X.reactive_history(ctx, big, JUDGE, i)
    # device names at the edge of what a name can be: the same word padded with white space, in another case, with inner blanks -
    # each is a device of its own, and a message goes to the one that accepts exactly the name it carries
    edge = X.Universe(EDGE_DEVICES, ["c0", "c1", "c2"], real_drivers=EDGE_REAL)
    for i in range(nh // 3):
        if ctx.mine(i):
            X.random_history(ctx, edge, JUDGE, 100000 + i, 40)
            ctx.count("histories_over_padded_and_case_variant_names")


def exhaustive(ctx):
    return True


def replay(ctx, case):
    devs, clis = case["uni"] if "uni" in case else (["A", "B", "*"], ["c0", "c1", "c2"])
    real = ("B",) if "B" in devs else EDGE_REAL if "Cam " in devs else ("D1", "D3")
    uni = X.Universe(devs, clis, real_drivers=real)
    if case.get("mode") == "reactive":
        X.reactive_history(ctx, uni, JUDGE, case["i"])
        return
    if case.get("mode") == "invalid-policy":
        invalid_policy_case(ctx, case["k"])
        return
    X.replay_history(ctx, uni, JUDGE, case["history"], case["op"])
    ctx.distinct.update([1, 2])
    ctx.evaluations += 1
