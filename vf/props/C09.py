"""C09 — switch properties always satisfy their rule (exhaustive state graph)."""
from __future__ import annotations

import itertools

from vf import devmon
from vf.gen import drivers as D

LEVEL = "exploration"
RULE = ("EXHAUSTIVE: for rule in {OneOfMany, AtMostOne, AnyOfMany} x n in 1..5 switches (thorough: 1..7) x every rule-conforming initial configuration "
        "(via default_on; for OneOfMany also all-Off), breadth-first over the state graph of a real generated driver: each node is "
        "installed with reset_selected_values, then EVERY operation is applied - client write On/Off to one switch (real "
        "newSwitchVector through the real Router), client writes naming 2 and 3 switches with every value combination, driver "
        ".value= / .bool_value= on every switch, selected_value= for every switch and selected_values= for every subset; every client write also with an injected fault (a Change handler "
        "raises, delivery to a client raises) and with a Write handler that prevents the default and then publishes the vector as Busy; On/Off in foreign spellings (ON, on, padded, 1, True) as client write and as "
        "assignment (refusal is fine; what is stored or published must be a protocol value and satisfy the rule); the same graph for 2..3 switches with elements being hidden and shown again (Element.enabled) at run time. After each "
        "operation the state tuple and the children of every setSwitchVector published during it are judged against the rule "
        "invariants. The graphs are explored once more with element names contained in one another, and once more with the switches kept under ordinary words as Python keys (on, off, selected, active, current, first, last, default) and reached by attribute access. non-trivial = every (node, operation) pair; distinct = hash(rule, n, node, operation)")
ASSUMPTIONS = ["the exact successor of a multi-switch write is left open (only the invariants are demanded)",
               "bulk selection of several switches under OneOfMany/AtMostOne must keep the invariants and must not raise"]
QUICK_SHARDS = 2
REQUIRED_EVENTS = ["states", "transitions", "published_updates_judged", "client_writes", "driver_assignments", "bulk_selections",
                   "client_writes_with_injected_fault", "client_writes_prevented_by_a_write_handler", "writes_in_a_foreign_spelling", "transitions_with_hidden_switches", "state_graphs_with_nested_element_names", "state_graphs_with_switches_kept_under_ordinary_words", "hardware_selector_moves", "initial_configurations_declared_on_the_elements"]
EXHAUSTIVE_NOTE = "the complete reachable state graph for every rule, 1..5 switches (thorough: 1..7) and every initial configuration, every operation on every node"
SHARDED = True
RULES = ["OneOfMany", "AtMostOne", "AnyOfMany"]


PLAIN_NAMES = [f"S{i}" for i in range(8)]
# names contained in one another, as in CONNECT / DISCONNECT, PARK / UNPARK, LOG / LOG_FILE
NESTED_NAMES = ["CONNECT", "DISCONNECT", "AUTO_DISCONNECT_OFF", "S3", "S4", "S5", "S6", "S7"]
NESTED_NAMES_REV = ["AUTO_DISCONNECT_OFF", "DISCONNECT", "CONNECT", "S3", "S4", "S5", "S6", "S7"]      # the longer name defined first
_NAMES = [PLAIN_NAMES]


def N(i):
    return _NAMES[0][i]


PLAIN_KEYS = [f"s{i}" for i in range(8)]
# keys (the Python attribute names the driver reaches its switches by) that are ordinary words - the ones a convenience accessor
# of the vector class is most likely to be called too
WORD_KEYS = ["on", "off", "selected", "active", "current", "first", "last", "default"]
_KEYS = [PLAIN_KEYS]


def K(i):
    return _KEYS[0][i]


def make_spec(rule, n, default_on, element_defaults=()):
    els = [{"attr": K(i), "name": N(i), "label": None, "default": ("On" if N(i) in element_defaults else None), "enabled": True} for i in range(n)]
    vec = {"attr": "sw", "kind": "Switch", "name": "SW", "label": None, "state": None, "perm": None, "timeout": None, "enabled": True,
           "rule": rule, "default_on": default_on, "elements": els}
    return {"name": "DEV", "levels": [{"groups": [{"attr": "g", "name": "G", "enabled": True, "vectors": [vec]}]}]}


def operations(n):
    ops = []
    for i in range(n):
        for val in ("On", "Off"):
            ops.append(("client1", ((i, val),)))
            ops.append(("value", i, val))
            ops.append(("bool", i, val == "On"))
        ops.append(("selected", i))
    for k in (2, 3):
        for idxs in itertools.permutations(range(n), k):
            for vals in itertools.product(("On", "Off"), repeat=k):
                ops.append(("clientN", tuple(zip(idxs, vals))))
    for r in range(n + 1):
        for sub in itertools.combinations(range(n), r):
            ops.append(("selecteds", sub))
    # switch states in a spelling the protocol does not have: refusing them is fine (any exception), but whatever is stored or
    # published afterwards must be a protocol value and must satisfy the rule, reading On/Off as a tolerant client would
    for i in range(n):
        for sp in ("ON", "on", "OFF", "oN", " On", "On ", "1", "True"):
            ops.append(("spelled-client", i, sp))
            ops.append(("spelled-value", i, sp))
    # client writes during which something fails AFTER the rule was applied (a Change handler of the driver raises,
    # delivery of the update to a client raises): the write is contained by the driver, the rule must still hold
    for op in list(ops):
        if op[0] in ("client1", "clientN"):
            ops.append(("fault-change",) + op)
            ops.append(("fault-delivery",) + op)
            # the documented "commit once the hardware confirmed" pattern: a Write handler of the driver prevents the default
            # (nothing is stored), the driver then publishes the vector as Busy
            ops.append(("fault-veto",) + op)
    return ops


def read_state(vec, n):
    return tuple(getattr(vec, K(i)).value == "On" for i in range(n))


def judge_state(rule, pre, post):
    """Invariant violations of a state (or published state) given the pre-state."""
    c = sum(post)
    if rule in ("OneOfMany", "AtMostOne") and c > 1:
        return "more-than-one-on"
    if rule == "OneOfMany" and sum(pre) == 1 and c != 1:
        return "one-of-many-left-without-a-switch-on"
    return None


def apply_op(router, rec, drv, vec, n, op):
    from indi import message as M
    from indi.message import one_parts
    kind = op[0]
    if kind in ("client1", "clientN"):
        children = tuple(one_parts.OneSwitch(name=N(i), value=v) for i, v in op[1])
        router.process_message(M.NewSwitchVector(device="DEV", name="SW", children=children), sender=rec)
    elif kind == "value":
        getattr(vec, K(op[1])).value = op[2]
    elif kind == "bool":
        getattr(vec, K(op[1])).bool_value = op[2]
    elif kind == "selected":
        vec.selected_value = N(op[1])
    elif kind == "selecteds":
        vec.selected_values = [N(i) for i in op[1]]


def explore(ctx, rule, n, init, explored=None, via_element_defaults=False):
    from indi.routing import Router
    default_on = [N(i) for i, b in enumerate(init) if b]
    if rule != "AnyOfMany":
        default_on = default_on[0] if default_on else None
    if via_element_defaults:
        # the initial selection is declared on the ELEMENTS (Switch(..., default="On")), the vector gets no default_on
        spec = make_spec(rule, n, None, element_defaults=[N(i) for i, b in enumerate(init) if b])
        ctx.count("initial_configurations_declared_on_the_elements")
    else:
        spec = make_spec(rule, n, default_on or None)
    router = Router()
    faults = {"change": False, "delivery": False, "veto": False}

    def leaf_hook(ns, defs):
        from indi.device import events
        from indi.device.events import on
        sources = [defs["g"].vectors["sw"].elements[K(i)] for i in range(n)]

        def failing_change(self, event):
            if faults["change"]:
                raise RuntimeError("failpoint: Change handler raises")
        ns["failing_change"] = on(sources if len(sources) > 1 else sources[0], events.Change)(failing_change)

        def deferring_write(self, event):
            if faults["veto"]:
                event.prevent_default = True
        ns["deferring_write"] = on(sources if len(sources) > 1 else sources[0], events.Write)(deferring_write)

    drv = D.build(spec, leaf_hook=leaf_hook)(router=router)
    rec = devmon.RecClient()
    orig_recv = rec.message_from_device

    def recv(message):
        orig_recv(message)
        if faults["delivery"]:
            raise RuntimeError("failpoint: delivery to a client raises")
    rec.message_from_device = recv
    router.register_client(rec)
    vec = D.vector_of(drv, "g", "sw")
    start = read_state(vec, n)
    cfg = {"rule": rule, "n": n, "init": list(init), "via_element_defaults": via_element_defaults, "nested_names": {id(NESTED_NAMES): 1, id(NESTED_NAMES_REV): 2}.get(id(_NAMES[0]), 0),
           "word_keys": _KEYS[0] is WORD_KEYS}
    if rule == "OneOfMany" and not any(init) and sum(start) == 1:
        # nothing was declared On: a library that then selects one switch itself satisfies the rule just as well as one that
        # leaves all of them Off - explore from where it starts
        init = start
    if start != tuple(init):
        ctx.violate("default_on-not-honoured" if not via_element_defaults else "element-defaults-not-honoured-or-rule-broken-at-start",
                    f"initial configuration {init} gives state {start}", cfg)
        return
    ops = operations(n)
    explored = explored if explored is not None else set()
    ctx.count("initial_configurations")
    if start in explored:
        return
    seen = explored
    seen.add(start)
    queue = [start]
    while queue:
        node = queue.pop(0)
        ctx.count("states")
        for op in ops:
            vec.reset_selected_values([N(i) for i, b in enumerate(node) if b])
            del rec.received[:]
            case = dict(cfg, node=list(node), op=[op[0]] + [list(x) if isinstance(x, tuple) else x for x in op[1:]])
            ctx.count("transitions")
            ctx.count({"client1": "client_writes", "clientN": "client_writes", "value": "driver_assignments", "bool": "driver_assignments",
                       "selected": "bulk_selections", "selecteds": "bulk_selections", "fault-change": "client_writes", "fault-delivery": "client_writes", "fault-veto": "client_writes",
                       "spelled-client": "client_writes", "spelled-value": "driver_assignments"}[op[0]])
            ctx.case_fast((rule, n, node, op, _NAMES[0][0]))
            if op[0].startswith("spelled-"):
                ctx.count("writes_in_a_foreign_spelling")
                try:
                    if op[0] == "spelled-client":
                        from indi import message as M
                        from indi.message import one_parts
                        router.process_message(M.NewSwitchVector(device="DEV", name="SW", children=(one_parts.OneSwitch(name=N(op[1]), value=op[2]),)), sender=rec)
                    else:
                        getattr(vec, K(op[1])).value = op[2]
                except Exception:
                    ctx.count("foreign_spellings_refused")
                stored = [getattr(vec, K(i))._value for i in range(n)]
                shown = [(type(m).__name__, [c.value for c in m.children]) for m in rec.received if type(m).__name__ == "SetSwitchVector"]
                for what, vals in [("state", stored)] + [("published", v) for _, v in shown]:
                    tol = tuple(str(getattr(v, "value", v)).strip().lower() == "on" for v in vals)
                    bad = judge_state(rule, node, tol) if len(tol) == n else None
                    if bad:
                        ctx.violate(f"{what}:{bad}:{rule}:{op[0]}", f"{rule}: {op} took {node} to {what} {vals!r}", case)
                        break
                    if any(not (v == "On" or v == "Off") for v in vals):
                        ctx.violate(f"{what}:switch-value-outside-the-protocol-vocabulary:{op[0]}", f"{rule}: {op} in {node}: {what} {vals!r}", case)
                        break
                continue
            fault = None
            if op[0].startswith("fault-"):
                fault = op[0][6:]
                op = op[1:]
                ctx.count("client_writes_with_injected_fault")
            try:
                if fault:
                    faults[fault] = True
                try:
                    apply_op(router, rec, drv, vec, n, op)
                    if fault == "veto":
                        ctx.count("client_writes_prevented_by_a_write_handler")
                        vec.state_ = "Busy"          # what a deferring driver publishes next
                finally:
                    faults["change"] = faults["delivery"] = faults["veto"] = False
            except Exception as e:
                ctx.violate(f"operation-raises:{op[0]}:{type(e).__name__}", f"{op} in state {node} raised {e!r}", case)
                continue
            post = read_state(vec, n)
            bad = judge_state(rule, node, post)
            if bad:
                ctx.violate(f"state:{bad}:{rule}:{op[0]}", f"{rule}: {op} took {node} to {post}", case)
            # single-switch postconditions (not under an injected fault: the write may legitimately be cut short)
            single = None
            if fault:
                pass
            elif op[0] == "client1":
                single = op[1][0]
            elif op[0] in ("value",):
                single = (op[1], op[2])
            elif op[0] == "bool":
                single = (op[1], "On" if op[2] else "Off")
            elif op[0] == "selected":
                single = (op[1], "On")
            if single is not None:
                i, val = single
                if val == "On" and not post[i]:
                    ctx.violate(f"switch-turned-on-is-not-on:{rule}:{op[0]}", f"{op} in {node} -> {post}", case)
                if rule == "AnyOfMany" and op[0] != "selected":
                    if any(post[j] != node[j] for j in range(n) if j != i):
                        ctx.violate(f"any-of-many-assignment-changed-another-switch:{op[0]}", f"{op} in {node} -> {post}", case)
                    if post[i] != (val == "On"):
                        ctx.violate(f"any-of-many-assignment-not-applied:{op[0]}", f"{op} in {node} -> {post}", case)
            if rule == "AnyOfMany" and op[0] == "clientN" and not fault:
                named = dict(op[1])
                for j in range(n):
                    want = (named[j] == "On") if j in named else node[j]
                    if post[j] != want:
                        ctx.violate("any-of-many-multi-write-wrong", f"{op} in {node} -> {post}", case)
                        break
            if rule == "AnyOfMany" and op[0] == "selecteds" and post != tuple(j in op[1] for j in range(n)):
                ctx.violate("any-of-many-selection-wrong", f"{op} in {node} -> {post}", case)
            if rule == "AnyOfMany" and op[0] == "selected":
                # "select this one": the named switch is On; the others are either left alone or all Off - never anything else
                others_same = all(post[j] == node[j] for j in range(n) if j != op[1])
                others_off = not any(post[j] for j in range(n) if j != op[1])
                if not post[op[1]] or not (others_same or others_off):
                    ctx.violate("any-of-many-selection-wrong:single", f"selected_value = {N(op[1])!r} in {node} -> {post}", case)
            # every published update
            prev = node
            for m in rec.received:
                if type(m).__name__ != "SetSwitchVector":
                    continue
                ctx.count("published_updates_judged")
                pub = {c.name: c.value for c in m.children}
                pstate = tuple(pub.get(N(j)) == "On" for j in range(n))
                bad = judge_state(rule, node, pstate)
                if bad:
                    ctx.violate(f"published:{bad}:{rule}:{op[0]}", f"{rule}: {op} in {node} published {pstate}", case)
            if post not in seen:
                seen.add(post)
                queue.append(post)
    ctx.sample({"rule": rule, "switches": n, "initial": list(init), "states_explored_so_far": len(seen), "operations_per_state": len(ops)})


def explore_hidden(ctx, rule, n):
    """The same state graph with HIDDEN switches: elements are disabled and enabled again at run time (Element.enabled).  A hidden
    switch is not listed in messages; whatever happens to it meanwhile, every message published and - whenever all switches
    are visible again - the whole state must satisfy the rule."""
    from indi import message as M
    from indi.message import one_parts
    from indi.routing import Router
    spec = make_spec(rule, n, [N(0)] if rule == "AnyOfMany" else N(0))
    router = Router()
    drv = D.build(spec)(router=router)
    rec = devmon.RecClient()
    router.register_client(rec)
    vec = D.vector_of(drv, "g", "sw")
    els = [getattr(vec, K(i)) for i in range(n)]
    ops = []
    for i in range(n):
        for val in ("On", "Off"):
            ops += [("client", i, val), ("value", i, val)]
        ops += [("hide", i), ("show", i)]
    ops.append(("getProperties",))
    start = (tuple(e._value == "On" for e in els), tuple(bool(e.enabled) for e in els))
    seen = {start}
    queue = [start]
    while queue:
        node = queue.pop(0)
        ctx.count("states_with_hidden_switches")
        for op in ops:
            # install the node
            for e, on_, en_ in zip(els, node[0], node[1]):
                e.enabled = True
            vec.reset_selected_values([N(i) for i, b in enumerate(node[0]) if b])
            for e, on_, en_ in zip(els, node[0], node[1]):
                e._value = "On" if on_ else "Off"
                e.enabled = en_
            del rec.received[:]
            case = {"mode": "hidden", "rule": rule, "n": n, "node": [list(node[0]), list(node[1])], "op": list(op)}
            ctx.count("transitions")
            ctx.count("transitions_with_hidden_switches")
            ctx.case_fast(("hidden", rule, n, node, op))
            try:
                if op[0] == "client":
                    router.process_message(M.NewSwitchVector(device="DEV", name="SW", children=(one_parts.OneSwitch(name=N(op[1]), value=op[2]),)), sender=rec)
                elif op[0] == "value":
                    els[op[1]].value = op[2]
                elif op[0] == "hide":
                    els[op[1]].enabled = False
                elif op[0] == "show":
                    els[op[1]].enabled = True
                else:
                    router.process_message(M.GetProperties(version="1.7", device="DEV"), sender=rec)
            except Exception as e:
                ctx.violate(f"operation-raises:hidden-switches:{op[0]}:{type(e).__name__}", f"{op} in {node} raised {e!r}", case)
                continue
            post = (tuple(e._value == "On" for e in els), tuple(bool(e.enabled) for e in els))
            for m in rec.received:
                if type(m).__name__ not in ("SetSwitchVector", "DefSwitchVector"):
                    continue
                ctx.count("published_updates_judged")
                on_names = [c.name for c in m.children if c.value == "On"]
                if rule in ("OneOfMany", "AtMostOne") and len(on_names) > 1:
                    ctx.violate(f"published:more-than-one-on:{rule}:hidden-switches:{op[0]}", f"{rule}: {op} in {node} published {on_names} On "
                                f"({type(m).__name__})", case)
                    break
            if all(post[1]) and rule in ("OneOfMany", "AtMostOne") and sum(post[0]) > 1:
                ctx.violate(f"state:more-than-one-on:{rule}:all-switches-visible-again:{op[0]}", f"{rule}: {op} took {node} to {post}", case)
            if rule in ("OneOfMany", "AtMostOne") and sum(post[0]) > 1 and op[0] in ("client", "value"):
                # keep exploring from it all the same: showing the hidden one is what makes it observable
                pass
            if post not in seen and len(seen) < 4000:
                seen.add(post)
                queue.append(post)


def explore_hardware(ctx, rule, n):
    """Switches that mirror a selector on the HARDWARE: a plain Read handler refreshes each switch from a model the harness owns
    (the documented reset_value idiom).  The hardware moves from selection i to selection j (or to none); the next message the
    driver publishes - a state change, the answer to getProperties - must satisfy the rule."""
    from indi import message as M
    from indi.routing import Router
    hw = {"sel": None}

    def leaf_hook(ns, defs):
        from indi.device import events
        from indi.device.events import on
        sources = [defs["g"].vectors["sw"].elements[K(i)] for i in range(n)]

        def poll(self, event):
            event.element.reset_value("On" if hw["sel"] == event.element.name else "Off")
        ns["poll"] = on(sources if len(sources) > 1 else sources[0], events.Read)(poll)

    for i in range(n):
        for j in [None] + list(range(n)):
            if rule == "OneOfMany" and j is None:
                continue
            for route in ("state-change", "getProperties"):
                spec = make_spec(rule, n, [N(i)] if rule == "AnyOfMany" else N(i))
                router = Router()
                hw["sel"] = N(i)
                drv = D.build(spec, leaf_hook=leaf_hook)(router=router)
                rec = devmon.RecClient()
                router.register_client(rec)
                vec = D.vector_of(drv, "g", "sw")
                case = {"mode": "hardware", "rule": rule, "n": n}
                try:
                    router.process_message(M.GetProperties(version="1.7"), sender=rec)        # settle on selection i
                except Exception as e:
                    ctx.violate(f"operation-raises:hardware-selector:first-getProperties:{type(e).__name__}",
                                f"{rule} n={n}: selector at {i}, the first getProperties: {e!r}"[:300], case)
                    continue
                del rec.received[:]
                hw["sel"] = N(j) if j is not None else None
                ctx.count("transitions")
                ctx.count("hardware_selector_moves")
                ctx.case_fast(("hardware", rule, n, i, j, route))
                try:
                    if route == "state-change":
                        vec.state_ = "Busy"
                    else:
                        router.process_message(M.GetProperties(version="1.7", device="DEV"), sender=rec)
                except Exception as e:
                    ctx.violate(f"operation-raises:hardware-selector:{route}:{type(e).__name__}", f"{rule} n={n}: selector {i} -> {j}, {route}: {e!r}"[:300], case)
                    continue
                for m in rec.received:
                    if type(m).__name__ not in ("SetSwitchVector", "DefSwitchVector"):
                        continue
                    ctx.count("published_updates_judged")
                    on_names = [c.name for c in m.children if c.value == "On"]
                    if rule in ("OneOfMany", "AtMostOne") and len(on_names) > 1:
                        ctx.violate(f"published:more-than-one-on:{rule}:hardware-selector-moved:{route}",
                                    f"{rule}, {n} switches refreshed by a Read handler: the selector moved from {N(i)} to {N(j) if j is not None else None}, "
                                    f"the {type(m).__name__} published next shows {on_names} On", case)


def initial_configs(rule, n):
    if rule == "AnyOfMany":
        return [tuple(bool(m >> i & 1) for i in range(n)) for m in range(1 << n)]
    one = [tuple(i == k for i in range(n)) for k in range(n)]
    return one + [tuple(False for _ in range(n))]


def run(ctx):
    j = 300
    for rule in RULES:
        for n in (2, 3, 4):
            j += 1
            if ctx.mine(j):
                explore_hardware(ctx, rule, n)
    j = 100
    for rule in RULES:
        for n in (2, 3) if not ctx.thorough else (2, 3, 4):
            j += 1
            if ctx.mine(j):
                explore_hidden(ctx, rule, n)
    # the same graph with element names that are contained in one another
    j = 200
    for rule in RULES:
        for n in (2, 3) if not ctx.thorough else (2, 3, 4, 5):
            j += 1
            if not ctx.mine(j):
                continue
            for scheme in (NESTED_NAMES, NESTED_NAMES_REV):
                _NAMES[0] = scheme
                try:
                    explored = set()
                    for init in initial_configs(rule, n):
                        explore(ctx, rule, n, init, explored)
                    ctx.count("state_graphs_with_nested_element_names")
                finally:
                    _NAMES[0] = PLAIN_NAMES
    # the same graph once more with switches kept under ordinary words (vector.on, vector.off, vector.selected ...)
    j = 400
    for rule in RULES:
        for n in (2, 3) if not ctx.thorough else (2, 3, 4, 5):
            j += 1
            if not ctx.mine(j):
                continue
            _KEYS[0] = WORD_KEYS
            try:
                explored = set()
                for init in initial_configs(rule, n):
                    explore(ctx, rule, n, init, explored)
                ctx.count("state_graphs_with_switches_kept_under_ordinary_words")
            finally:
                _KEYS[0] = PLAIN_KEYS
    i = 0
    for rule in RULES:
        for n in range(1, 6 if not ctx.thorough else 8):
            i += 1
            if not ctx.mine(i):
                continue
            explored = set()
            for init in initial_configs(rule, n):
                explore(ctx, rule, n, init, explored)
                if ctx.enough():
                    return
            if n <= 4:
                for init in initial_configs(rule, n):
                    if any(init):
                        explore(ctx, rule, n, init, explored, via_element_defaults=True)      # the start state is what is judged


def exhaustive(ctx):
    return True


def replay(ctx, case):
    if case.get("mode") == "hardware":
        explore_hardware(ctx, case["rule"], case["n"])
        return
    if case.get("mode") == "hidden":
        explore_hidden(ctx, case["rule"], case["n"])
        return
    from indi.routing import Router
    rule, n, init, node = case["rule"], case["n"], case["init"], case.get("node")
    _NAMES[0] = {1: NESTED_NAMES, 2: NESTED_NAMES_REV}.get(int(case.get("nested_names") or 0), PLAIN_NAMES)
    _KEYS[0] = WORD_KEYS if case.get("word_keys") else PLAIN_KEYS
    if node is None:
        explore(ctx, rule, n, tuple(init), via_element_defaults=bool(case.get("via_element_defaults")))
        return
    default_on = [N(i) for i, b in enumerate(init) if b]
    if rule != "AnyOfMany":
        default_on = default_on[0] if default_on else None
    router = Router()
    drv = D.build(make_spec(rule, n, default_on or None))(router=router)
    rec = devmon.RecClient()
    router.register_client(rec)
    vec = D.vector_of(drv, "g", "sw")
    explore(ctx, rule, n, tuple(init))
