"""Monitors for driver-side checks: boundary recorder on Router.process_message
and the self-validity monitor applied to every message a driver emits
(shared by C01/C06/C07/C09/C12/C14; DESIGN §3 C07)."""
from __future__ import annotations

from vf.instr import Patch
from vf.ref.view import view_lib


class RouterTap:
    """Wraps Router.process_message on the class: records (seq, sender kind,
    message, depth) and exceptions escaping it; optionally validates every
    driver-emitted message by serialise -> parse -> compare -> re-serialise."""

    def __init__(self, ctx=None, validate=True):
        from indi.routing import Router
        self.ctx = ctx
        self.validate = validate
        self.events = []         # dicts
        self.escaped = []        # (message view, exception)
        self.depth = 0
        self.seq = 0
        self.invalid = []        # (why, kind, detail)
        self.routed = 0
        self.patch = Patch()
        tap = self

        def make(orig):
            def process_message(router, message, sender=None):
                from indi.routing import Device
                tap.seq += 1
                ev = {"seq": tap.seq, "depth": tap.depth, "message": message, "sender": sender,
                      "from_driver": isinstance(sender, Device)}
                tap.events.append(ev)
                if tap.validate and ev["from_driver"]:
                    tap.check_valid(message)
                tap.depth += 1
                try:
                    before = view_lib(message)
                except Exception:
                    before = None
                try:
                    return orig(router, message, sender)
                except BaseException as e:
                    if tap.depth == 1:
                        tap.escaped.append((message, e))
                    raise
                finally:
                    tap.depth -= 1
                    # the one message object is handed to every recipient in turn: none of them may change it
                    if before is not None:
                        tap.routed += 1
                        try:
                            after = view_lib(message)
                        except Exception as e:
                            after = ("unreadable", repr(e))
                        if after != before:
                            tap.invalid.append((f"routed-message-changed-by-a-recipient:{type(message).__name__}",
                                                {"before": _brief(before), "after": _brief(after)}, None))
            return process_message

        self.patch.wrap(Router, "process_message", make)

    def check_valid(self, message):
        import indi.message as M
        kind = type(message).__name__
        if self.ctx is not None:
            self.ctx.count("driver_emitted_messages_validated")
        try:
            v1 = view_lib(message)
            wire = message.to_string()
        except Exception as e:
            self.invalid.append((f"unserialisable:{kind}", repr(e), None))
            return
        try:
            back = M.IndiMessage.from_string(wire)
        except Exception as e:
            self.invalid.append((f"own-parser-rejects:{kind}", repr(e), wire.decode("latin1")))
            return
        v2 = view_lib(back)
        if v1 != v2:
            self.invalid.append((f"reads-back-changed:{kind}", {"emitted": v1, "read_back": v2}, wire.decode("latin1")))

    def report_invalid(self, ctx, case):
        ctx.count("routed_messages_checked_for_mutation", self.routed)
        self.routed = 0
        for why, detail, wire in self.invalid:
            if why.startswith("routed-message-changed"):
                ctx.violate(why, f"a message object was different after Router.process_message handed it to its recipients: {detail}", case)
                continue
            mech = why
            if why.startswith("own-parser-rejects") and "'min'" in str(detail):
                mech += ":number-without-min-max"
            elif why.startswith("own-parser-rejects") and "'size'" in str(detail):
                mech += ":blob-without-size-format"
            ctx.violate("driver-emits-invalid-message:" + mech, f"a driver emitted a message that is not valid: {why} {detail}", case,
                        {"wire": wire})
        del self.invalid[:]

    def clear(self):
        del self.events[:]
        del self.escaped[:]

    def close(self):
        self.patch.undo()


def _brief(v, n=300):
    r = repr(v)
    return r if len(r) <= n else r[:n] + f"...[{len(r)} chars]"


class RecClient:
    """A routing client that records what it is handed (made at run time so
    that it subclasses the repo's Client)."""

    def __new__(cls, *a, **k):
        from indi.routing import Client

        class _Rec(Client):
            def __init__(self, name="rec"):
                self.name = name
                self.received = []

            def message_from_device(self, message):
                self.received.append(message)

        return _Rec(*a, **k)
