"""Framing observed through the real transports (shared by C02 and C11).

Several real connection handlers of one process are fed their own byte streams
in an interleaved schedule chosen by the caller; what each of them delivers is
recorded at its own boundary (the router call of a server connection, the
callback of a client connection).  A connection's deliveries must depend on
that connection's bytes only."""
from __future__ import annotations

import asyncio

from vf import bufmon
from vf.instr import FakeWriter, LoopMonitor, Patch
from vf.ref.view import view_lib


class StubRouter:
    """What a server-side connection needs from a router; records (connection, message)."""

    def __init__(self):
        self.clients = []
        self.log = []

    def register_client(self, c):
        self.clients.append(c)

    def unregister_client(self, c):
        if c in self.clients:
            self.clients.remove(c)

    def process_message(self, message, sender=None):
        self.log.append((sender, message))


class FakeStdin:
    """What the TTY handler reads from: readline() hands over whatever chunk the harness fed ('' = end of input)."""

    def __init__(self):
        self.q = asyncio.Queue()

    def feed(self, text):
        self.q.put_nowait(text)

    def feed_eof(self):
        self.q.put_nowait("")

    async def readline(self):
        return await self.q.get()


class FakeStdout:
    def __init__(self):
        self.chunks = []

    async def write(self, data):
        self.chunks.append(data)

    async def flush(self):
        pass


class Result:
    def __init__(self, n):
        self.delivered = [[] for _ in range(n)]      # per connection: (feed step, view or exception)
        self.after = []                              # per feed step: (connection, chars fed so far to it, deliveries of it so far)
        self.errors = []
        self.shadow = []                             # per feed step: (connection, deliveries of a bare Buffer fed the same pieces, its retained length, the handler's retained length)
        self.foreign = []                            # deliveries attributed to a connection that does not exist


async def _run(kind, streams, schedule, eof_order, for_blobs):
    n = len(streams)
    res = Result(n)
    loop = asyncio.get_running_loop()
    mon = LoopMonitor(loop)
    patch = Patch()
    stats = bufmon.guard_process(patch)
    readers, handlers, tasks = [], [], []
    step = [0]
    try:
        kinds = [kind] * n if isinstance(kind, str) else list(kind)
        router = StubRouter()
        inbox = [[] for _ in range(n)]
        shared_tcp = [None]
        for i, k in enumerate(kinds):
            if k == "server-tcp":
                from indi.transport.server.tcp import ConnectionHandler
                r = asyncio.StreamReader()
                h = ConnectionHandler(r, FakeWriter(f"s{i}"), router)
                tasks.append(loop.create_task(h.wait_for_messages()))
            elif k == "server-tty":
                from indi.transport.server.tty import ConnectionHandler
                r = FakeStdin()
                h = ConnectionHandler(router, r, FakeStdout())
                tasks.append(loop.create_task(h.wait_for_messages()))
            elif k == "client-tcp-object":
                # the connection comes out of the application's transport object, indi.transport.client.tcp.TCP, which an
                # application may well use for both of a Client's connections and for every reconnect: an earlier BLOB connection
                # was made through the very same object
                from indi.transport.client import tcp as client_tcp
                if shared_tcp[0] is None:
                    shared_tcp[0] = client_tcp.TCP("server.invalid", 7624)
                r = asyncio.StreamReader()
                opened = []

                async def open_connection(host, port, *a, **kw):
                    rr = r if len(opened) % 2 else asyncio.StreamReader()     # first the earlier BLOB connection, then the one under test
                    opened.append(rr)
                    return rr, FakeWriter(f"c{len(opened)}")
                patch.set(asyncio, "open_connection", open_connection)
                await shared_tcp[0].connect(lambda m: None, for_blobs=True)
                h = await shared_tcp[0].connect(inbox[i].append, **({"for_blobs": True} if for_blobs and for_blobs[i] else {}))
                if h.reader is not r:
                    raise AssertionError("harness: the handler under test does not read the stream it is fed through")
                tasks.append(loop.create_task(h.wait_for_messages()))
            else:
                from indi.transport.client.tcp import ConnectionHandler
                r = asyncio.StreamReader()
                h = ConnectionHandler(r, FakeWriter(f"c{i}"), inbox[i].append, for_blobs=bool(for_blobs and for_blobs[i]))
                tasks.append(loop.create_task(h.wait_for_messages()))
            readers.append(r)
            handlers.append(h)

        def collect():
            while router.log:
                sender, m = router.log.pop(0)
                try:
                    v = view_lib(m)
                except Exception as e:
                    v = ("unreadable", repr(e))
                if sender in handlers:
                    res.delivered[handlers.index(sender)].append((step[0], v))
                else:
                    res.foreign.append((step[0], v))
            for i in range(n):
                while inbox[i]:
                    m = inbox[i].pop(0)
                    try:
                        v = view_lib(m)
                    except Exception as e:
                        v = ("unreadable", repr(e))
                    res.delivered[i].append((step[0], v))

        # a bare Buffer per connection with the threshold that kind of connection is meant to have, fed the same pieces
        from indi.transport import Buffer
        shadows, shadow_counts = [], [0] * n
        for i, k in enumerate(kinds):
            b = Buffer()
            # set explicitly, whatever a default-constructed Buffer happens to have: BLOB-mode client connections have no junk
            # threshold, every other connection the protocol's 2048 characters
            b.max_buffer_size_before_frontal_cleanup = None if (k.startswith("client-tcp") and for_blobs and for_blobs[i]) else 2048
            shadows.append(b)
        pos = [0] * n
        fed = [0] * n
        for ci in schedule:
            pieces = streams[ci]
            if pos[ci] >= len(pieces):
                continue
            piece = pieces[pos[ci]]
            pos[ci] += 1
            fed[ci] += len(piece)
            step[0] += 1
            if isinstance(readers[ci], FakeStdin):
                readers[ci].feed(piece)
            else:
                readers[ci].feed_data(piece.encode("latin1"))
            for _ in range(3):
                await asyncio.sleep(0)
            collect()
            res.after.append((ci, fed[ci], len(res.delivered[ci])))
            got = []
            shadows[ci].append(piece)
            try:
                shadows[ci].process(got.append)
            except BaseException as e:          # the bare Buffer's own trouble is not this monitor's subject
                res.shadow.append((ci, None, None, None))
            else:
                shadow_counts[ci] += len(got)
                res.shadow.append((ci, shadow_counts[ci], shadows[ci].data_len, getattr(getattr(handlers[ci], "buffer", None), "data_len", None)))
            for i, t in enumerate(tasks):
                if t.done():
                    exc = t.exception() if not t.cancelled() else None
                    res.errors.append((i, "receive-loop-ended", repr(exc)))
                    return res, stats
        for ci in eof_order:
            readers[ci].feed_eof()
            for _ in range(3):
                await asyncio.sleep(0)
            step[0] += 1
            collect()
        for i, t in enumerate(tasks):
            if not t.done():
                res.errors.append((i, "receive-loop-does-not-end-at-eof", ""))
            elif t.exception() is not None:
                res.errors.append((i, "receive-loop-raised", repr(t.exception())))
        return res, stats
    finally:
        for t in tasks:
            if not t.done():
                t.cancel()
        await asyncio.sleep(0)
        patch.undo()


def run(kind, streams, schedule, eof_order=None, for_blobs=None):
    """streams: per connection a list of text pieces; schedule: connection indices, one per piece fed."""
    eof_order = list(range(len(streams))) if eof_order is None else eof_order
    return asyncio.run(_run(kind, streams, schedule, eof_order, for_blobs))


def interleavings(rng, lengths, how):
    """A feeding schedule for connections with the given numbers of pieces."""
    if how == "sequential":
        return [i for i, n in enumerate(lengths) for _ in range(n)]
    if how == "round-robin":
        out, left = [], list(lengths)
        while any(left):
            for i in range(len(left)):
                if left[i]:
                    out.append(i)
                    left[i] -= 1
        return out
    pool = [i for i, n in enumerate(lengths) for _ in range(n)]
    rng.shuffle(pool)
    return pool


def differential_problems(res):
    """[(feed step, connection, what)] where a handler did not behave like a bare Buffer fed the same pieces."""
    out = []
    for step, ((ci, fed, ndel), (ci2, sdel, sret, rret)) in enumerate(zip(res.after, res.shadow)):
        if sdel is None:
            continue
        if ndel != sdel:
            out.append((step, ci, f"{'fewer' if ndel < sdel else 'more'}-deliveries-than-a-bare-buffer",
                        f"after feed step {step} connection {ci} had delivered {ndel} messages, a bare Buffer fed the same pieces {sdel}"))
        elif rret is not None and rret > sret:
            out.append((step, ci, "retains-more-than-a-bare-buffer",
                        f"after feed step {step} connection {ci} retains {rret} characters, a bare Buffer fed the same pieces {sret}"))
    return out
