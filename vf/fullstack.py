"""Helpers shared by the full-stack checks (C01, C06, C08)."""
from __future__ import annotations

from vf import stack
from vf.gen import drivers as D
from vf.ref import driverview as DV
from vf.ref import xmlsplit
from vf.ref.client import RefClient
from vf.ref.view import view_xml


def norm_blob(v):
    """None == empty payload."""
    if v is None:
        return None
    if isinstance(v, tuple) and v and v[0] == "blob":
        return None if (len(v[1]) == 0 and not v[2]) else ("blob", bytes(v[1]), v[2] or "")
    if hasattr(v, "binary"):
        return None if (len(v.binary) == 0 and not v.format) else ("blob", bytes(v.binary), v.format or "")
    return v


def compare_mirror(view, expected, check_blob_values=False, who="client", exact=False):
    """view: {prop: {...}} of ONE device in client_view shape; expected: output of
    DV.expected_device.  Returns list of (mechanism, text)."""
    diffs = []
    for name in view:
        if name not in expected:
            diffs.append(("extra-property", f"{who} shows property {name} which the device does not have enabled", name))
    for name, prop in expected.items():
        if name not in view:
            diffs.append(("missing-property", f"{who} does not show enabled property {name}", name))
            continue
        got = view[name]
        if got["kind"] != prop["kind"]:
            diffs.append(("wrong-kind", f"{name}: kind {got['kind']} != {prop['kind']}", name))
            continue
        if got["state"] != prop["state"]:
            diffs.append(("stale-state", f"{name}: state {got['state']!r} != device {prop['state']!r}", name))
        if got["label"] != prop["label"]:
            diffs.append(("wrong-label", f"{name}: label {got['label']!r} != {prop['label']!r}", name))
        if got["group"] != prop["group"]:
            diffs.append(("wrong-group", f"{name}: group {got['group']!r} != {prop['group']!r}", name))
        want_names = [e["name"] for e in prop["elements"]]
        if list(got["elements"]) != want_names:
            diffs.append(("wrong-elements", f"{name}: elements {list(got['elements'])} != {want_names}", name))
            continue
        for e in prop["elements"]:
            label, val = got["elements"][e["name"]]
            if label != e["label"]:
                diffs.append(("wrong-element-label", f"{name}.{e['name']}: label {label!r} != {e['label']!r}", name))
            if prop["kind"] == "BLOB":
                if (check_blob_values or exact) and norm_blob(val) != norm_blob(e["raw"]):
                    diffs.append(("stale-blob", f"{name}.{e['name']}: payload differs", name))
                continue
            if exact:
                a = None if val in (None, "") else val
                b = None if e["raw"] in (None, "") else e["raw"]
                if a != b:
                    diffs.append(("differs-from-arrival-order-mirror", f"{name}.{e['name']}: {val!r} != {e['raw']!r}", name))
                continue
            if not DV.value_matches(prop["kind"], val, e["raw"], e.get("format")):
                diffs.append(("stale-value", f"{name}.{e['name']}: {who} has {val!r}, device has {e['raw']!r}", name))
    return diffs


def compare_metadata(refprops, expected):
    """Wire-level metadata the library client drops: perm, rule, format, min, max, step, timeout."""
    diffs = []
    for name, prop in expected.items():
        p = refprops.get(name)
        if p is None:
            continue
        for k in ("perm", "rule"):
            if k in prop and p.attrs.get(k) != str(prop[k]):
                diffs.append(("wrong-" + k, f"{name}: {k} {p.attrs.get(k)!r} != {prop[k]!r}"))
        if "timeout" in prop:
            try:
                if float(p.attrs.get("timeout", "nan")) != float(prop["timeout"]):
                    diffs.append(("wrong-timeout", f"{name}: timeout {p.attrs.get('timeout')!r} != {prop['timeout']!r}"))
            except ValueError:
                diffs.append(("wrong-timeout", f"{name}: timeout {p.attrs.get('timeout')!r}"))
        if prop["kind"] == "Number":
            for e in prop["elements"]:
                el = p.elements.get(e["name"])
                if el is None:
                    continue
                if el.meta.get("format") != e["format"]:
                    diffs.append(("wrong-format", f"{name}.{e['name']}: format {el.meta.get('format')!r} != {e['format']!r}"))
                for a in ("min", "max", "step"):
                    if e.get(a) is not None:
                        try:
                            if float(el.meta.get(a, "nan")) != float(e[a]):
                                diffs.append(("wrong-" + a, f"{name}.{e['name']}: {a} {el.meta.get(a)!r} != {e[a]!r}"))
                        except ValueError:
                            diffs.append(("wrong-" + a, f"{name}.{e['name']}: {a} {el.meta.get(a)!r}"))
    return diffs


class MultiMirror:
    """Reference client fed with the very bytes several Wires delivered,
    merged either in ROUTED order (the order in which the server wrote the
    messages, across connections) or in ARRIVAL order (the order in which the
    last byte of each message reached the client)."""

    def __init__(self, wires):
        self.wires = list(wires)
        self.messages = 0

    @staticmethod
    def _seq_at(marks, offset):
        import bisect
        i = bisect.bisect_left(marks, (offset, -1))
        return marks[min(i, len(marks) - 1)][1]

    def elements(self, order):
        out = []
        for wi, w in enumerate(self.wires):
            data = bytes(w.delivered).decode("latin1")
            els, rest = xmlsplit.split(data)
            pos = 0
            for el in els:
                start = data.index(el, pos)
                end = start + len(el)
                pos = end
                marks = w.write_marks if order == "routed" else w.deliver_marks
                out.append((self._seq_at(marks, end), wi, el))
        out.sort(key=lambda t: (t[0], t[1]))
        return [el for _, _, el in out]

    def build(self, order="routed"):
        """Returns (RefClient, error or None)."""
        ref = RefClient()
        try:
            els = self.elements(order)
        except xmlsplit.SplitError as e:
            return ref, str(e)
        self.messages = len(els)
        for el in els:
            try:
                ref.apply(view_xml(el))
            except Exception as e:
                return ref, f"reference client cannot read {el[:120]!r}: {e!r}"
        return ref, None
