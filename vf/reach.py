"""Reach monitor (DESIGN §5.3): which anchored functions of indipy actually ran.

sys.monitoring PY_START events, scoped to code objects under the repository's
`indi` package (everything else is DISABLEd at its first event).  Each
function is counted up to a cap and then DISABLEd too, so the cost stays a
few per cent.  The per-property anchors come from properties.jsonl
(`anchors.mechanism[].where`)."""
from __future__ import annotations

import json
import os
import re
import sys

TOOL = 4
CAP = 2000


class Reach:
    def __init__(self, repo_root):
        self.root = os.path.join(os.path.realpath(repo_root), "indi") + os.sep
        self.counts = {}          # (relative file, qualname) -> calls (capped)
        self.mon = sys.monitoring
        self.active = False

    def start(self):
        if self.mon.get_tool(TOOL) is not None:
            return
        self.mon.use_tool_id(TOOL, "vf-reach")
        self.mon.register_callback(TOOL, self.mon.events.PY_START, self._start)
        self.mon.set_events(TOOL, self.mon.events.PY_START)
        self.active = True

    def _start(self, code, offset):
        fn = code.co_filename
        if not fn.startswith(self.root):
            return self.mon.DISABLE
        key = (fn[len(self.root):], code.co_qualname)
        n = self.counts.get(key, 0) + 1
        self.counts[key] = n
        if n >= CAP:
            return self.mon.DISABLE
        return None

    def stop(self):
        if not self.active:
            return
        self.mon.set_events(TOOL, 0)
        self.mon.register_callback(TOOL, self.mon.events.PY_START, None)
        self.mon.free_tool_id(TOOL)
        self.active = False

    def table(self):
        return {f"{f}:{q}": n for (f, q), n in sorted(self.counts.items())}


_WHERE = re.compile(r"([A-Za-z_/]+\.py)\s*:\s*([A-Za-z_][A-Za-z_0-9.]*(?:\s*(?:,|/|\s+and\s+)\s*[A-Za-z_][A-Za-z_0-9.]*)*)")


def anchors_of(prop, verif_dir):
    """[(file suffix, qualname)] named by the property's mechanism anchors."""
    out = []
    with open(os.path.join(verif_dir, "properties.jsonl")) as f:
        for line in f:
            p = json.loads(line)
            if p["id"] != prop:
                continue
            for mech in p["anchors"].get("mechanism", []):
                where = mech.get("where", "")
                for part in re.split(r";", where):
                    m = _WHERE.search(part)
                    if not m:
                        continue
                    fsuffix = m.group(1)
                    for q in re.split(r"\s*(?:,|/|\s+and\s+)\s*", m.group(2)):
                        q = q.strip().strip(".")
                        if q and q[0].isalpha() or q.startswith("_"):
                            out.append((fsuffix, q))
    return out


def match(anchor, table_keys):
    """Does an anchor (file suffix, dotted name) match a called function?"""
    fsuffix, q = anchor
    fsuffix = fsuffix.replace("indi/", "", 1) if fsuffix.startswith("indi/") else fsuffix
    hits = []
    for key in table_keys:
        f, qual = key.split(":", 1)
        if not f.endswith(fsuffix):
            continue
        qn = qual.replace(".<locals>", "")
        if qn == q or qn.endswith("." + q) or qn.startswith(q + ".") or ("." + q + ".") in ("." + qn + "."):
            hits.append(key)
    return hits
