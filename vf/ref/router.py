"""Reference router model (DESIGN §2.4): devices, clients, policy[client][device].

Independent of indipy: message kinds are plain strings, endpoints are ids."""
from __future__ import annotations

CLIENT_KINDS = {"getProperties", "enableBLOB", "newTextVector", "newNumberVector", "newSwitchVector", "newBLOBVector", "pingReply"}
DEVICE_KINDS = {"getProperties", "delProperty", "message", "pingRequest",
                "defTextVector", "defNumberVector", "defSwitchVector", "defLightVector", "defBLOBVector",
                "setTextVector", "setNumberVector", "setSwitchVector", "setLightVector", "setBLOBVector"}
BLOB_KINDS = {"setBLOBVector"}


class Model:
    def __init__(self, accepts):
        """accepts: dict device id -> function(name or None) -> bool"""
        self.accepts = accepts
        self.devices = []          # registered device ids, in order
        self.clients = []          # registered client ids, in order
        self.policy = {}           # client id -> {device name: value}

    # -- state -------------------------------------------------------------
    def key(self):
        return (tuple(sorted(self.devices)), tuple(sorted(self.clients)),
                tuple(sorted((c, d, v) for c, m in self.policy.items() for d, v in m.items())))

    def clone(self):
        m = Model(self.accepts)
        m.devices = list(self.devices)
        m.clients = list(self.clients)
        m.policy = {c: dict(p) for c, p in self.policy.items()}
        return m

    # -- operations ----------------------------------------------------------
    def register_device(self, d):
        self.devices.append(d)

    def register_client(self, c):
        self.clients.append(c)
        self.policy[c] = {}

    def unregister_client(self, c):
        if c in self.clients:
            self.clients.remove(c)
        self.policy.pop(c, None)

    def deliver(self, kind, device_name, sender, value=None):
        """Returns the expected multiset of deliveries as a sorted list of
        ('dev'|'cli', endpoint id)."""
        out = []
        if kind in CLIENT_KINDS:
            if kind == "enableBLOB" and sender in self.policy:
                self.policy[sender][device_name] = value
            for d in self.devices:
                if d != sender and self.accepts[d](device_name):
                    out.append(("dev", d))
        if kind in DEVICE_KINDS:
            for c in self.clients:
                if c == sender:
                    continue
                pol = self.policy.get(c, {}).get(device_name, "Never")
                blob = kind in BLOB_KINDS
                if (pol == "Also") or (pol == "Never" and not blob) or (pol == "Only" and blob):
                    out.append(("cli", c))
        return sorted(out)
