"""Independent splitter of a byte/character stream into top-level XML elements
(DESIGN §2.4 ref.xmlsplit): an expat parser per element, tracking depth."""
from __future__ import annotations

import xml.parsers.expat as expat


class SplitError(Exception):
    pass


def split(text, allow_partial_tail=True):
    """Returns (elements, rest): list of element strings in order, and the
    unconsumed tail (white space / an incomplete element).  Raises SplitError
    when the stream contains something that is not white space, an XML
    declaration or a well-formed element."""
    if isinstance(text, (bytes, bytearray)):
        text = bytes(text).decode("latin1")
    out = []
    i = 0
    n = len(text)
    while i < n:
        ch = text[i]
        if ch in " \t\r\n":
            i += 1
            continue
        if text.startswith("<?", i):
            j = text.find("?>", i)
            if j < 0:
                return out, text[i:]
            i = j + 2
            continue
        if ch != "<":
            raise SplitError(f"unexpected character {ch!r} at offset {i}: ...{text[max(0, i - 30):i + 30]!r}")
        depth = [0]
        done = [False]
        p = expat.ParserCreate()

        def start(name, attrs):
            depth[0] += 1

        def end(name):
            depth[0] -= 1
            if depth[0] == 0:
                done[0] = True

        p.StartElementHandler = start
        p.EndElementHandler = end
        pos = i
        found = None
        while True:
            j = text.find(">", pos)
            if j < 0:
                break
            try:
                p.Parse(text[pos:j + 1], False)
            except expat.ExpatError as e:
                raise SplitError(f"malformed element at offset {i}: {e}: {text[i:i + 80]!r}")
            pos = j + 1
            if done[0]:
                found = pos
                break
        if found is None:
            if allow_partial_tail:
                return out, text[i:]
            raise SplitError(f"incomplete element at offset {i}")
        out.append(text[i:found])
        i = found
    return out, ""
