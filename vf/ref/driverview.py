"""Expected definitions of a generated driver, computed from the generated
definition (static metadata) and the driver's public attributes (dynamic
state) — never from Driver._vectors or to_def_message (DESIGN §2.4)."""
from __future__ import annotations

from vf.gen import drivers as D
from vf.ref import number as RN


class Track:
    """Flags and states tracked from the generated definition and the
    history of operations (independent of the driver's own bookkeeping)."""

    def __init__(self, spec):
        self.g = {}
        self.v = {}
        self.e = {}
        self.state = {}
        for gattr, vattr, g, v in D.locate(spec):
            self.g[gattr] = bool(g.get("enabled", True))
            self.v[(gattr, vattr)] = bool(v.get("enabled", True))
            self.state[(gattr, vattr)] = v.get("state") or "Ok"
            for e in v["elements"]:
                self.e[(gattr, vattr, e["attr"])] = bool(e.get("enabled", True))

    def apply(self, op):
        name = op[0]
        if name == "venable":
            self.v[(op[2], op[3])] = bool(op[4])
        elif name == "genable":
            self.g[op[2]] = bool(op[3])
        elif name == "eenable":
            self.e[(op[2], op[3], op[4])] = bool(op[5])
        elif name == "state":
            self.state[(op[2], op[3])] = op[4]

    def enabled(self, gattr, vattr):
        return self.g[gattr] and self.v[(gattr, vattr)]


def is_enabled(drv, gattr, vattr, track=None):
    if track is not None:
        return track.enabled(gattr, vattr)
    return bool(D.vector_of(drv, gattr, vattr).enabled)


def expected_property(drv, spec_name, gattr, vattr, g, v, values=None, track=None):
    """Expected property as a dict, or None when it is not enabled.
    values: optional {element name: raw value}; default: read .value."""
    vec = D.vector_of(drv, gattr, vattr)
    if not is_enabled(drv, gattr, vattr, track):
        return None
    kind = v["kind"]
    prop = {
        "device": drv.name, "name": v["name"], "kind": kind, "group": g["name"],
        "label": v["label"] if v.get("label") else v["name"],
        "state": track.state[(gattr, vattr)] if track is not None else vec.state_,
    }
    if kind != "Light":
        prop["perm"] = v["perm"] if v.get("perm") else "rw"
        prop["timeout"] = v["timeout"] if v.get("timeout") is not None else 0
    if kind == "Switch":
        prop["rule"] = v["rule"]
    els = []
    for e in v["elements"]:
        el = D.element_in(vec, e["attr"])
        if not (track.e[(gattr, vattr, e["attr"])] if track is not None else el.enabled):
            continue
        raw = values[e["name"]] if values is not None and e["name"] in values else el.value
        d = {"name": e["name"], "label": e["label"] if e.get("label") else e["name"], "raw": raw}
        if kind == "Number":
            d.update(format=e["format"], min=e.get("min"), max=e.get("max"), step=e.get("step", 0))
        els.append(d)
    prop["elements"] = els
    return prop


def expected_device(drv, spec, track=None):
    out = {}
    for gattr, vattr, g, v in D.locate(spec):
        p = expected_property(drv, spec["name"], gattr, vattr, g, v, track=track)
        if p is not None:
            out[v["name"]] = p
    return out


def _num_eq(text, raw, fmt):
    if raw is None:
        return text in (None, "")
    if text is None:
        return False
    val = RN.parse(text)
    if val is None:
        return False
    try:
        tol = RN.tolerance(fmt, raw)
    except Exception:
        tol = 1e-6 * max(1.0, abs(raw))   # %g and friends: 6 significant digits
        tol = max(tol, abs(raw) * 1e-5)
    return abs(val - raw) <= tol


def value_matches(kind, text, raw, fmt=None):
    """Does wire text `text` carry the driver-side raw value?"""
    if kind == "Number":
        return _num_eq(text, raw, fmt)
    if kind == "BLOB":
        return text in (None, "")  # definitions carry no payload
    t = None if text in (None, "") else str(text)
    r = None if raw in (None, "") else str(raw).strip()
    return t == (r if r != "" else None)


def compare_def(view, prop):
    """Compare the structural view of an emitted def message with the
    expected property.  Returns list of difference strings."""
    tag, attrs, text, kids = view
    attrs = dict(attrs)
    diffs = []
    kind = prop["kind"]
    if tag != f"def{kind}Vector":
        return [f"kind {tag} != def{kind}Vector"]
    for k in ("device", "name", "group", "label", "state", "perm", "rule"):
        if k in prop and attrs.get(k) != str(prop[k]):
            diffs.append(f"{k}: {attrs.get(k)!r} != {prop[k]!r}")
    if "timeout" in prop:
        try:
            if float(attrs.get("timeout", "nan")) != float(prop["timeout"]):
                diffs.append(f"timeout: {attrs.get('timeout')!r} != {prop['timeout']!r}")
        except ValueError:
            diffs.append(f"timeout: {attrs.get('timeout')!r}")
    want = prop["elements"]
    if [dict(k[1]).get("name") for k in kids] != [e["name"] for e in want]:
        return diffs + [f"elements {[dict(k[1]).get('name') for k in kids]} != {[e['name'] for e in want]}"]
    for k, e in zip(kids, want):
        ktag, kattrs, ktext, _ = k
        kattrs = dict(kattrs)
        if ktag != f"def{kind}":
            diffs.append(f"element kind {ktag}")
        if kattrs.get("label") != str(e["label"]):
            diffs.append(f"element {e['name']} label {kattrs.get('label')!r} != {e['label']!r}")
        if kind == "Number":
            if kattrs.get("format") != e["format"]:
                diffs.append(f"element {e['name']} format {kattrs.get('format')!r}")
            for a in ("min", "max", "step"):
                if e.get(a) is not None:
                    try:
                        if float(kattrs.get(a, "nan")) != float(e[a]):
                            diffs.append(f"element {e['name']} {a} {kattrs.get(a)!r} != {e[a]!r}")
                    except ValueError:
                        diffs.append(f"element {e['name']} {a} {kattrs.get(a)!r}")
        if not value_matches(kind, ktext, e["raw"], e.get("format")):
            diffs.append(f"element {e['name']} value {ktext!r} does not carry {e['raw']!r}")
    return diffs
