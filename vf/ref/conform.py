"""Independent INDI conformance validator, written from the protocol DTD as
the library implements it (DESIGN §3 C13).  Input: a structural view
(vf.ref.view) of a parsed message.  Output: list of non-conformities."""
from __future__ import annotations

import re

from vf.gen.messages import BLOBEN, GRAMMAR, PARTS, PERMS, RULES, STATES, SWITCH

FIELD_VOCABULARIES = {"state": STATES, "perm": PERMS, "rule": RULES}

def is_number_syntax(s) -> bool:
    """INDI number syntax: one definition for the whole harness (vf.ref.number)."""
    from vf.ref import number as RN
    if not isinstance(s, str):
        s = str(s)
    return RN.parse(s) is not None


def nonconformities(view):
    tag, attrs, text, kids = view
    attrs = dict(attrs)
    out = []
    spec = GRAMMAR.get(tag)
    if spec is None:
        if tag == "oneLight":  # registered by the library as a top-level kind
            if text not in STATES:
                out.append(("light-value-vocabulary", text))
            return out
        return [("unknown-kind", tag)]
    for a in spec["req"]:
        if a not in attrs:
            out.append(("required-attribute-missing", f"{tag}.{a}"))
    for a, vocab in spec["vocab"].items():
        if a in attrs and attrs[a] not in vocab:
            out.append((f"{a}-vocabulary", attrs[a]))
    # a constrained field is constrained wherever the message carries it: a kind whose grammar does not list `perm` (a light
    # definition), `rule` or `state` must not come back holding a word outside that field's vocabulary either
    for a, vocab in FIELD_VOCABULARIES.items():
        if a in attrs and a not in spec["vocab"] and attrs[a] not in vocab:
            out.append((f"{a}-vocabulary", attrs[a]))
    if spec["text"] == "bloben" and text not in BLOBEN:
        out.append(("blobenable-vocabulary", text))
    for k in kids:
        ktag, kattrs, ktext, _ = k
        kattrs = dict(kattrs)
        if ktag != spec["child"]:
            out.append(("child-kind", f"{ktag} in {tag}"))
            continue
        ps = PARTS[ktag]
        for a in ps["req"]:
            if a not in kattrs:
                out.append(("required-attribute-missing", f"{ktag}.{a}"))
        kind = ps["value"]
        if kind == "Switch" and ktext not in SWITCH:
            out.append(("switch-value-vocabulary", ktext))
        if kind == "Light" and ktext not in STATES:
            out.append(("light-value-vocabulary", ktext))
        if kind == "Number" and ktext is not None and not is_number_syntax(ktext):
            out.append(("number-syntax", ktext))
    return out
