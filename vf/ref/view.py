"""Independent structural view of messages (DESIGN §2.4).  Never uses the
library's ==, to_dict or to_xml to judge anything."""
from __future__ import annotations

import xml.etree.ElementTree as ET


def _tag_of(obj):
    n = type(obj).__name__
    return n[:1].lower() + n[1:]


def _norm_text(t):
    if t is None:
        return None
    t = str(t).strip()
    return t if t != "" else None


def view_part(p):
    attrs = {}
    for k, v in vars(p).items():
        if k == "value" or v is None:
            continue
        attrs[k] = str(v)
    return (_tag_of(p), tuple(sorted(attrs.items())), _norm_text(getattr(p, "value", None)), ())


def view_lib(m):
    """View of a library message object, read through its instance attributes."""
    attrs = {}
    for k, v in vars(m).items():
        if k in ("children", "value") or v is None:
            continue
        attrs[k] = str(v)
    children = getattr(m, "children", None) or ()
    return (_tag_of(m), tuple(sorted(attrs.items())), _norm_text(getattr(m, "value", None)),
            tuple(view_part(c) for c in children))


def view_abstract(am):
    def one(a, children):
        attrs = {k: str(v) for k, v in a["attrs"].items() if v is not None}
        return (a["tag"], tuple(sorted(attrs.items())), _norm_text(a.get("text")),
                tuple(one(c, None) for c in (children or ())))
    return one(am, am.get("children"))


def view_et(el):
    def one(e, top):
        txt = _norm_text(e.text)
        kids = tuple(one(c, False) for c in e)
        if top and kids:
            txt = None  # white space between children is not a value
        return (e.tag, tuple(sorted(e.attrib.items())), txt, kids)
    return one(el, True)


def view_xml(text):
    return view_et(ET.fromstring(text))


def strip_msg_text(v):
    """Top-level text is only meaningful for kinds without children."""
    return v


def describe(v):
    tag, attrs, text, kids = v
    return {"tag": tag, "attrs": dict(attrs), "text": text, "children": [describe(k) for k in kids]}
