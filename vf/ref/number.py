"""INDI number conventions, independent of indipy (DESIGN §2.4).

* parse(): the value a number text denotes for an INDI peer:
  [sign] d[.f] [sep m[.f] [sep s[.f]]], sep in ':' ';' blank, the sign applying
  to the whole magnitude (libindi's f_scansexa); plain decimals may carry an
  exponent.
* resolution(): the rendering resolution of a format.
"""
from __future__ import annotations

import math
import re

_F = r"(?:[0-9]+\.?[0-9]*|\.[0-9]+)"
_SEXA = re.compile(rf"^\s*([-+]?)\s*({_F})\s*[:; ]\s*({_F})(?:\s*[:; ]\s*({_F}))?\s*$", re.ASCII)
_DEC = re.compile(rf"^\s*[-+]?{_F}(?:[eE][-+]?[0-9]+)?\s*$", re.ASCII)
_SEXA_FMT = re.compile(r"^%(\d*)\.(\d+)m$")
_PRINTF = re.compile(r"^%([-+ 0#]*)(\d*)(?:\.(\d*))?([df])$")

SEXA_RES = {3: 1 / 60, 5: 1 / 600, 6: 1 / 3600, 8: 1 / 36000, 9: 1 / 360000}


def parse(s):
    """Value denoted by s, or None if s is not INDI number syntax."""
    if not isinstance(s, str) or not s.isascii():
        return None
    if _DEC.match(s):
        return float(s)
    m = _SEXA.match(s)
    if not m:
        return None
    sign, a, b, c = m.groups()
    v = float(a) + float(b) / 60 + (float(c) / 3600 if c else 0.0)
    return -v if sign == "-" else v


def resolution(fmt):
    m = _SEXA_FMT.match(fmt)
    if m:
        return SEXA_RES[int(m.group(2))]
    m = _PRINTF.match(fmt)
    if not m:
        raise ValueError(fmt)
    flags, width, prec, conv = m.groups()
    if conv == "d":
        return 1.0
    p = 6 if prec is None else (int(prec) if prec != "" else 0)
    return 10.0 ** (-p)


def tolerance(fmt, value):
    return resolution(fmt) * (1 + 1e-9) + 8 * math.ulp(max(1.0, abs(value)))
