"""Reference INDI client interpreter (DESIGN §2.4 ref.client).

Applies def / set / delProperty messages (given as structural views) to a
mirror that keeps everything, and derives the events an application must see
from each message.  Independent of indipy's client package."""
from __future__ import annotations

import base64
import binascii

KINDS = ("Text", "Number", "Switch", "Light", "BLOB")


class Elem:
    __slots__ = ("name", "label", "value", "meta")

    def __init__(self, name, label, value, meta):
        self.name, self.label, self.value, self.meta = name, label, value, meta


class Prop:
    def __init__(self, kind, name, attrs):
        self.kind = kind
        self.name = name
        self.attrs = dict(attrs)      # label group state perm rule timeout timestamp message
        self.state = attrs.get("state")
        self.elements = {}            # name -> Elem (insertion ordered)


def decode_blob(text, attrs):
    """(bytes, format) or raises ValueError when payload and size disagree."""
    raw = base64.b64decode(text or "")
    size = attrs.get("size")
    if size is not None and int(size) != len(raw):
        raise ValueError(f"size {size} != {len(raw)}")
    return ("blob", raw, attrs.get("format", "") or "")


class RefClient:
    def __init__(self):
        self.devices = {}     # device -> {prop name: Prop}

    def apply(self, view):
        """Apply one message view; returns the list of events:
        ("definition", dev, prop) / ("state", dev, prop, old, new) /
        ("value", dev, prop, element, old, new)."""
        tag, attrs, text, kids = view
        attrs = dict(attrs)
        ev = []
        dev = attrs.get("device")
        if tag.startswith("def") and tag.endswith("Vector") and tag[3:-6] in KINDS:
            kind = tag[3:-6]
            props = self.devices.setdefault(dev, {})
            p = Prop(kind, attrs.get("name"), attrs)
            ev.append(("state", dev, p.name, None, p.state))
            for k in kids:
                ktag, kattrs, ktext, _ = k
                kattrs = dict(kattrs)
                if ktag != "def" + kind:
                    continue
                val = None if kind == "BLOB" else ktext
                e = Elem(kattrs.get("name"), kattrs.get("label"), val, kattrs)
                p.elements[e.name] = e
            for e in p.elements.values():
                ev.append(("value", dev, p.name, e.name, None, e.value))
            props[p.name] = p
            ev.append(("definition", dev, p.name))
            return ev
        if tag.startswith("set") and tag.endswith("Vector") and tag[3:-6] in KINDS:
            kind = tag[3:-6]
            p = self.devices.get(dev, {}).get(attrs.get("name"))
            if p is None or p.kind != kind:
                return ev
            new_state = attrs.get("state")
            if new_state is not None and new_state != p.state:
                ev.append(("state", dev, p.name, p.state, new_state))
                p.state = new_state
            for k in kids:
                ktag, kattrs, ktext, _ = k
                kattrs = dict(kattrs)
                if ktag != "one" + kind:
                    continue
                e = p.elements.get(kattrs.get("name"))
                if e is None:
                    continue
                if kind == "BLOB":
                    try:
                        val = decode_blob(ktext, kattrs)
                    except (ValueError, binascii.Error):
                        continue
                else:
                    val = ktext
                if val != e.value:
                    ev.append(("value", dev, p.name, e.name, e.value, val))
                    e.value = val
            return ev
        if tag == "delProperty":
            name = attrs.get("name")
            if dev in self.devices:
                if name is None:
                    del self.devices[dev]
                else:
                    self.devices[dev].pop(name, None)
            return ev
        return ev

    def view(self):
        """Same shape as vf.stack.client_view."""
        out = {}
        for d, props in self.devices.items():
            out[d] = {}
            for n, p in props.items():
                out[d][n] = {"state": p.state, "label": p.attrs.get("label"), "group": p.attrs.get("group"), "kind": p.kind,
                             "elements": {e.name: (e.label, e.value) for e in p.elements.values()}}
        return out
