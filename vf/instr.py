"""Instrumentation primitives (DESIGN §2.2).  Nothing here edits indipy: the
monitors are installed from the outside (sys.monitoring line events on chosen
code objects, wrappers on class attributes, fake streams)."""
from __future__ import annotations

import asyncio
import sys
import types


class HangDetected(BaseException):
    """Raised into a frame that exceeded its logical step budget."""


def code_objects_of(*things):
    """All code objects defined by the given classes / functions."""
    out = []
    seen = set()

    def add(c):
        if c is not None and id(c) not in seen:
            seen.add(id(c))
            out.append(c)
            for k in c.co_consts:
                if isinstance(k, types.CodeType):
                    add(k)

    for t in things:
        if isinstance(t, type):
            for v in vars(t).values():
                if isinstance(v, types.FunctionType):
                    add(v.__code__)
                elif isinstance(v, (classmethod, staticmethod)):
                    add(v.__func__.__code__)
                elif isinstance(v, property):
                    for f in (v.fget, v.fset, v.fdel):
                        if f is not None:
                            add(f.__code__)
        elif isinstance(t, types.FunctionType):
            add(t.__code__)
        elif isinstance(t, types.CodeType):
            add(t)
    return out


class StepBudget:
    """Logical-step watchdog: counts LINE events of chosen code objects while
    armed and raises HangDetected into the running frame on overrun.  Also
    records which (function, line) pairs executed while armed (reach)."""

    TOOL = 3  # a free tool id (0..5); 2 = profiler, 1 = coverage, 0 = debugger

    def __init__(self, *things, name="vf-stepbudget"):
        self.mon = sys.monitoring
        self.codes = code_objects_of(*things)
        self.armed = False
        self.steps = 0
        self.budget = 0
        self.total_steps = 0
        self.max_steps = 0
        self.overruns = 0
        self.lines = set()
        if self.mon.get_tool(self.TOOL) is None:
            self.mon.use_tool_id(self.TOOL, name)
        self.mon.register_callback(self.TOOL, self.mon.events.LINE, self._line)
        for c in self.codes:
            self.mon.set_local_events(self.TOOL, c, self.mon.events.LINE)

    def _line(self, code, line):
        if not self.armed:
            return None
        self.steps += 1
        self.lines.add((code.co_name, line))
        if self.steps > self.budget:
            self.armed = False
            self.overruns += 1
            raise HangDetected(f"{code.co_name}:{line} after {self.steps} line events (budget {self.budget})")
        return None

    def run(self, budget, fn, *a, **kw):
        """Call fn under the budget.  Raises HangDetected on overrun."""
        self.steps = 0
        self.budget = budget
        self.armed = True
        try:
            return fn(*a, **kw)
        finally:
            self.armed = False
            self.total_steps += self.steps
            if self.steps > self.max_steps:
                self.max_steps = self.steps

    def close(self):
        for c in self.codes:
            self.mon.set_local_events(self.TOOL, c, 0)
        self.mon.register_callback(self.TOOL, self.mon.events.LINE, None)
        self.mon.free_tool_id(self.TOOL)


def selftest():
    def spin(n):
        i = 0
        while i < n:
            i += 1
        return i

    sb = StepBudget(spin)
    try:
        assert sb.run(1000, spin, 10) == 10
        try:
            sb.run(1000, spin, 10 ** 9)
        except HangDetected:
            pass
        else:
            print("StepBudget did not cut a spin")
            return False
        assert sb.run(1000, spin, 5) == 5
    finally:
        sb.close()
    return True


# ---------------------------------------------------------------------------
# Class-attribute wrappers


class Patch:
    """Reversible replacement of attributes (used for boundary recorders)."""

    def __init__(self):
        self._undo = []

    def set(self, obj, name, value):
        had = name in vars(obj) if isinstance(obj, type) else hasattr(obj, name)
        old = vars(obj).get(name) if isinstance(obj, type) else getattr(obj, name, None)
        self._undo.append((obj, name, had, old))
        setattr(obj, name, value)

    def wrap(self, obj, name, make):
        """make(original) -> replacement"""
        orig = vars(obj)[name] if isinstance(obj, type) and name in vars(obj) else getattr(obj, name)
        self.set(obj, name, make(orig))
        return orig

    def undo(self):
        while self._undo:
            obj, name, had, old = self._undo.pop()
            if had:
                setattr(obj, name, old)
            else:
                try:
                    delattr(obj, name)
                except AttributeError:
                    pass

    def __enter__(self):
        return self

    def __exit__(self, *a):
        self.undo()


# ---------------------------------------------------------------------------
# Fake streams (asyncio)


class FakeWriter:
    """StreamWriter stand-in.  write() is synchronous and atomic like the real
    one; drain() returns an awaitable the explorer controls."""

    def __init__(self, name="w", auto_drain=True):
        self.name = name
        self.chunks = []          # every write, in order
        self.closed = False
        self.writes_after_close = 0
        self.auto_drain = auto_drain
        self.pending_drains = []  # futures parked (auto_drain False)
        self.fail_write = None    # exception to raise from write
        self.fail_drain = None
        self.on_write = None      # callback(bytes) -> deliver to the peer
        self.drain_calls = 0
        self.flow = None          # callable -> True while the transport is paused (write buffer above the high-water mark)
        self.drains_paused = 0

    def write(self, data):
        if self.closed:
            self.writes_after_close += 1
        if self.fail_write is not None:
            raise self.fail_write
        self.chunks.append(bytes(data))
        if self.on_write is not None:
            self.on_write(bytes(data))

    async def drain(self):
        self.drain_calls += 1
        if self.fail_drain is not None:
            raise self.fail_drain
        if self.auto_drain:
            # like asyncio's StreamWriter: returns at once unless the transport paused the protocol
            if self.flow is not None and self.flow():
                self.drains_paused += 1
                while self.flow() and not self.closed:
                    await asyncio.sleep(0)
            return
        fut = asyncio.get_running_loop().create_future()
        self.pending_drains.append(fut)
        await fut

    def release(self, i=0, exc=None):
        fut = self.pending_drains.pop(i)
        if not fut.done():
            if exc is None:
                fut.set_result(None)
            else:
                fut.set_exception(exc)

    def close(self):
        self.closed = True

    def is_closing(self):
        return self.closed

    async def wait_closed(self):
        return

    def get_extra_info(self, *a, **k):
        return None

    @property
    def data(self) -> bytes:
        return b"".join(self.chunks)


class LoopMonitor:
    """Registers every task created on the loop and every unhandled error."""

    def __init__(self, loop):
        self.loop = loop
        self.tasks = []
        self.errors = []
        loop.set_task_factory(self._factory)
        loop.set_exception_handler(self._on_error)

    def _factory(self, loop, coro, **kw):
        t = asyncio.Task(coro, loop=loop, **kw)
        self.tasks.append(t)
        return t

    def _on_error(self, loop, context):
        self.errors.append({k: repr(v) for k, v in context.items()})

    def pending(self):
        return [t for t in self.tasks if not t.done()]

    def failed(self):
        out = []
        for t in self.tasks:
            if t.done() and not t.cancelled() and t.exception() is not None:
                out.append((_coro_name(t), repr(t.exception())))
        return out

    def names(self, tasks=None):
        return [_coro_name(t) for t in (tasks if tasks is not None else self.tasks)]


def _coro_name(t):
    c = t.get_coro()
    return getattr(c, "__qualname__", None) or repr(c)


async def settle(rounds=3, extra=None, max_rounds=2000):
    """Yield to the loop until `extra()` (pump function returning True when it
    moved something) has nothing to do for `rounds` consecutive iterations.
    Returns the number of iterations, or -1 if max_rounds was exceeded."""
    quiet = 0
    n = 0
    while quiet < rounds:
        n += 1
        if n > max_rounds:
            return -1
        moved = bool(extra()) if extra is not None else False
        await asyncio.sleep(0)
        if moved:
            quiet = 0
        else:
            quiet += 1
    return n


class VirtualClockLoop(asyncio.SelectorEventLoop):
    """Event loop whose clock is virtual: when idle it advances time to the
    next timer instead of sleeping (DESIGN §2.2)."""

    def __init__(self):
        super().__init__()
        self._vt = 0.0
        orig_select = self._selector.select

        def select(timeout=None):
            if timeout is not None and timeout > 0:
                self._vt += timeout
                timeout = 0
            elif timeout is None:
                # nothing scheduled and nothing ready: would block forever
                raise RuntimeError("VirtualClockLoop: deadlock (no timers, no ready callbacks)")
            return orig_select(timeout)

        self._selector.select = select

    def time(self):
        return self._vt
