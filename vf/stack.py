"""In-memory full stack (DESIGN §2.2 fake streams, §3 C01): real Router, real
drivers, real server-side TCP ConnectionHandlers, real client-side
ConnectionHandlers and the real indi.client.client.Client, connected by
Wires whose fragmentation the harness chooses."""
from __future__ import annotations

import asyncio
import random

from vf.instr import FakeWriter, LoopMonitor


class Wire:
    """Bytes written by `writer` travel to `reader` in fragments."""

    def __init__(self, writer: FakeWriter, reader: asyncio.StreamReader, mode="whole", seed=0, name=""):
        self.writer = writer
        self.reader = reader
        self.mode = mode
        self.rng = random.Random(seed)
        self.name = name
        self.pending = bytearray()
        self.delivered = bytearray()     # everything that reached the reader (tap)
        self.eof_sent = False
        self.broken = None               # exception to deliver instead of data
        self.hold = False                # harness may stall the wire
        self.fragments = 0
        self.clock = None                # shared global sequence (list of one int), set by the Session
        self.written = 0
        self.write_marks = []            # (cumulative bytes written, global seq) per write  -> routed order
        self.deliver_marks = []          # (cumulative bytes delivered, global seq) per pump -> arrival order
        writer.on_write = self._on_write
        # asyncio's default write-buffer limits: the transport pauses the protocol above HIGH and resumes it at LOW
        self.paused = False
        writer.flow = self._flow

    HIGH, LOW = 64 * 1024, 16 * 1024

    def _flow(self):
        n = len(self.pending)
        if self.eof_sent:
            self.paused = False
        elif n > self.HIGH:
            self.paused = True
        elif n <= self.LOW:
            self.paused = False
        return self.paused

    def _tick(self):
        if self.clock is None:
            return 0
        self.clock[0] += 1
        return self.clock[0]

    def _on_write(self, data: bytes):
        self.pending += data
        self.written += len(data)
        self.write_marks.append((self.written, self._tick()))

    def in_flight(self):
        return len(self.pending)

    def _next_size(self):
        n = len(self.pending)
        m = self.mode
        if m == "whole":
            return n
        if m == "1024":
            return min(n, 1024)
        if m == "1":
            return 1
        if m == "random":
            return min(n, self.rng.choice([1, 2, 3, 5, 8, 13, 40, 100, 300, 1024, 5000]))
        if m == "small":
            return min(n, self.rng.choice([1, 2, 3, 5, 7, 11]))
        if isinstance(m, int):
            return min(n, m)
        raise AssertionError(m)

    def pump(self) -> bool:
        """Deliver one fragment (or EOF).  Returns True if something moved."""
        if self.hold:
            return False
        if self.eof_sent:
            # bytes written after the stream ended go nowhere (the FakeWriter counts writes after close)
            del self.pending[:]
            return False
        if self.broken is not None and not self.eof_sent:
            self.reader.set_exception(self.broken)
            self.eof_sent = True
            return True
        if self.pending:
            k = self._next_size()
            chunk = bytes(self.pending[:k])
            del self.pending[:k]
            self.delivered += chunk
            self.fragments += 1
            self.deliver_marks.append((len(self.delivered), self._tick()))
            self.reader.feed_data(chunk)
            return True
        if self.writer.closed and not self.eof_sent:
            self.eof_sent = True
            self.reader.feed_eof()
            return True
        return False


class Link:
    """One TCP connection: client-side streams <-> server-side streams."""

    def __init__(self, name, mode_c2s="whole", mode_s2c="whole", seed=0):
        self.name = name
        self.c_reader = asyncio.StreamReader()
        self.s_reader = asyncio.StreamReader()
        self.c_writer = FakeWriter(name + ".client")
        self.s_writer = FakeWriter(name + ".server")
        self.c2s = Wire(self.c_writer, self.s_reader, mode_c2s, seed * 2 + 1, name + ".c2s")
        self.s2c = Wire(self.s_writer, self.c_reader, mode_s2c, seed * 2 + 2, name + ".s2c")
        self.server_task = None
        self.server_conn = None
        self.client_handler = None
        self.client_task = None

    def wires(self):
        return (self.c2s, self.s2c)


class Session:
    def __init__(self, router, seed=0, mode_c2s="whole", mode_s2c="whole"):
        self.router = router
        self.seed = seed
        self.mode_c2s = mode_c2s
        self.mode_s2c = mode_s2c
        self.links = []
        self.loop = asyncio.get_running_loop()
        self.mon = LoopMonitor(self.loop)
        self.stalled = False
        self.clock = [0]
        self.connect_delay = {}       # connection kind ("control" / "blob") -> loop iterations its connect() takes

    # -- server side ---------------------------------------------------------
    def new_link(self, name=None, serve=True):
        from indi.transport.server.tcp import ConnectionHandler as ServerConn
        link = Link(name or f"L{len(self.links)}", self.mode_c2s, self.mode_s2c, self.seed * 100 + len(self.links))
        self.links.append(link)
        for w in link.wires():
            w.clock = self.clock
        if serve:
            before = list(ServerConn.connections)
            handler_func = ServerConn.handler(self.router)
            link.server_task = self.loop.create_task(handler_func(link.s_reader, link.s_writer))
            link._before = before
        return link

    def server_conn_of(self, link):
        from indi.transport.server.tcp import ConnectionHandler as ServerConn
        if link.server_conn is None:
            for c in ServerConn.connections:
                if c.writer is link.s_writer:
                    link.server_conn = c
        return link.server_conn

    # -- client side ---------------------------------------------------------
    def connector(self, kind):
        sess = self

        class MemConnection:
            async def connect(self, callback, for_blobs=False):
                from indi.transport.client.tcp import ConnectionHandler
                # a connection that takes a while to come up (a slow accept): meanwhile the loop runs and the wires are pumped
                for _ in range(sess.connect_delay.get(kind, 0)):
                    sess.pump()
                    await asyncio.sleep(0)
                link = sess.new_link(kind)
                h = ConnectionHandler(link.c_reader, link.c_writer, callback, for_blobs=for_blobs)
                link.client_handler = h
                self.link = link
                return h

        return MemConnection()

    async def make_client(self):
        from indi.client.client import Client
        ctl, blob = self.connector("control"), self.connector("blob")
        client = Client(ctl, blob)
        await client.start()
        client._vf_links = (ctl.link, blob.link)
        return client

    # -- scheduling ------------------------------------------------------------
    def pump(self):
        moved = False
        for link in self.links:
            for w in link.wires():
                if w.pump():
                    moved = True
        return moved

    def in_flight(self):
        return sum(w.in_flight() for l in self.links for w in l.wires())

    def total_bytes(self):
        return sum(len(w.delivered) + len(w.pending) for l in self.links for w in l.wires())

    async def quiesce(self, max_rounds=None, byte_cap=64_000_000):
        """Pump wires and yield until nothing moves for 3 rounds.  Returns the
        number of rounds, or -1 on a stall: more rounds than the traffic can
        explain (every round with a busy wire moves at least one byte, so the
        bound grows with the bytes written), or traffic that does not cease
        (byte cap).  A spin inside a callback never returns here: that is the
        step budget's / the watchdog's business."""
        quiet = 0
        n = 0
        while quiet < 3:
            n += 1
            limit = max_rounds if max_rounds is not None else 5000 + 3 * self.total_bytes()
            if n > limit or self.total_bytes() > byte_cap:
                self.stalled = True
                return -1
            moved = self.pump()
            await asyncio.sleep(0)
            if moved:
                quiet = 0
            else:
                quiet += 1
        return n

    async def close(self):
        for t in self.mon.pending():
            t.cancel()
        for _ in range(3):
            await asyncio.sleep(0)
        from indi.transport.server.tcp import ConnectionHandler as ServerConn
        del ServerConn.connections[:]


def run(coro_fn, *a, **kw):
    """Run an async harness function on a fresh loop."""
    return asyncio.run(coro_fn(*a, **kw))


# ---------------------------------------------------------------------------
# reading the client's public view


def client_view(client):
    """{device: {property: {state, label, group, kind, elements: {name: (label, value)}}}} via the public API."""
    out = {}
    for dname in list(client.list_devices()):
        dev = client.get_device(dname)
        props = {}
        for vname in dev.list_vectors():
            vec = dev.get_vector(vname)
            els = {}
            for ename in vec.list_elements():
                el = vec.get_element(ename)
                val = el.value
                if val is not None and hasattr(val, "binary"):
                    val = ("blob", bytes(val.binary), val.format)
                els[ename] = (el.label, val)
            props[vname] = {"state": vec.state, "label": vec.label, "group": vec.group,
                            "kind": type(vec).__name__.replace("Vector", ""), "elements": els}
        out[dname] = props
    return out
