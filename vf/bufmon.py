"""Monitored execution of the real framing buffer (used by C02, C11, C08)."""
from __future__ import annotations

import time

from vf.instr import HangDetected, StepBudget

_SB = None


def stepbudget():
    global _SB
    if _SB is None:
        from indi.transport.buffer import Buffer
        _SB = StepBudget(Buffer, name="vf-buffer")
    return _SB


def budget_for(data: str) -> int:
    n = len(data)
    g = data.count(">")
    lt = data.count("<")
    # cost model: every dropped character / delivered message costs one cleanup
    # (~6 lines per known tag) plus one scan (~12 lines per '>'); generous x3
    return 2000 + 3 * (n + 1) * (40 + 0) + 3 * (lt + g + 2) * (200 + 14 * (g + 1))


class Feed:
    """Result of feeding pieces to one Buffer."""

    def __init__(self):
        self.delivered = []       # (piece index, object handed to the callback)
        self.after = []           # per piece: dict(data_len, delivered_so_far, fed)
        self.error = None         # (piece index, kind, text)
        self.steps = 0


CPU_LIMIT = 1.5


def feed(pieces, threshold, budget_scale=1.0, use_budget=True):
    from indi.transport.buffer import Buffer
    sb = stepbudget() if use_budget else None
    buf = Buffer()
    buf.max_buffer_size_before_frontal_cleanup = threshold
    res = Feed()
    fed = ""
    cur = [0]

    def cb(msg):
        res.delivered.append((cur[0], msg))

    for j, piece in enumerate(pieces):
        cur[0] = j
        fed += piece
        try:
            buf.append(piece)
            before = buf.data
            cpu0 = time.thread_time()
            if sb is not None:
                sb.run(int(budget_for(before) * budget_scale), buf.process, cb)
                res.steps += sb.steps
            else:
                buf.process(cb)
        except HangDetected as e:
            res.error = (j, "hang", str(e))
            break
        except Exception as e:  # noqa
            import traceback
            res.error = (j, "raise", "".join(traceback.format_exception_only(type(e), e)).strip())
            break
        finally:
            cpu = time.thread_time() - cpu0
        if cpu > CPU_LIMIT and len(before) < 20000:
            # not a wall-clock verdict: CPU time of this thread, for a few KB of input, three to four orders of magnitude above
            # what the call needs (time spent where no Python line event is raised: a regular expression, a C-level loop).
            # A blow-up that is caused by the CONTENT repeats on the same content; a collector pass or a descheduled virtual CPU
            # booked on this call does not: the verdict is the smallest of three measurements.
            cpu = min(cpu, confirm_cpu(before, threshold))
            if cpu > CPU_LIMIT:
                res.error = (j, "hang", f"one Buffer.process call on {len(before)} buffered characters burnt {cpu:.2f} s of CPU time (limit {CPU_LIMIT} s)")
                break
            UNCONFIRMED_SPIKES[0] += 1
        data = buf.data
        res.after.append({"data_len": buf.data_len, "delivered": len(res.delivered), "fed": len(fed),
                          "suffix_ok": fed.endswith(data), "data": data if len(data) < 200 else None})
    return res


UNCONFIRMED_SPIKES = [0]      # CPU-time readings above the limit that did not repeat on the same content


def confirm_cpu(data, threshold, repeats=2):
    """Smallest CPU time of `repeats` further Buffer.process calls on a fresh Buffer holding the same text, garbage collector off."""
    import gc
    from indi.transport.buffer import Buffer
    best = float("inf")
    was = gc.isenabled()
    gc.disable()
    try:
        for _ in range(repeats):
            b = Buffer()
            b.max_buffer_size_before_frontal_cleanup = threshold
            b.append(data)
            t0 = time.thread_time()
            try:
                b.process(lambda m: None)
            except BaseException:
                pass
            best = min(best, time.thread_time() - t0)
    finally:
        if was:
            gc.enable()
    return best


def guard_process(patch):
    """Wrap Buffer.process (class attribute) so that EVERY call, also those made
    by the real connection handlers inside the event loop, runs under the
    logical step budget.  A HangDetected then ends the calling task, where the
    LoopMonitor finds it."""
    from indi.transport.buffer import Buffer
    sb = stepbudget()
    stats = {"calls": 0, "max_steps": 0}

    def make(orig):
        def process(self, callback):
            stats["calls"] += 1
            cpu0 = time.thread_time()
            data_before = self.data
            n = len(data_before)
            try:
                return sb.run(budget_for(self.data), orig, self, callback)
            finally:
                if sb.steps > stats["max_steps"]:
                    stats["max_steps"] = sb.steps
                cpu = time.thread_time() - cpu0
                if n < 20000 and cpu > CPU_LIMIT:
                    cpu = min(cpu, confirm_cpu(data_before, self.max_buffer_size_before_frontal_cleanup))
                    if cpu <= CPU_LIMIT:
                        UNCONFIRMED_SPIKES[0] += 1
                if n < 20000 and cpu > stats.get("max_cpu", 0.0):
                    stats["max_cpu"] = cpu
        return process

    patch.wrap(Buffer, "process", make)
    return stats
