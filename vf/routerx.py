"""Lock-step exploration of the real Router against the reference model
(shared by C04 and C05; DESIGN §3 C04/C05)."""
from __future__ import annotations

import asyncio
from collections import Counter, deque

from vf.ref.router import BLOB_KINDS, CLIENT_KINDS, DEVICE_KINDS, Model

NEW_KINDS = ["newTextVector", "newNumberVector", "newSwitchVector", "newBLOBVector"]
DEF_KINDS = ["defTextVector", "defNumberVector", "defSwitchVector", "defLightVector", "defBLOBVector"]
SET_KINDS = ["setTextVector", "setNumberVector", "setSwitchVector", "setLightVector", "setBLOBVector"]
POLICIES = ["Never", "Also", "Only"]


def make_message(kind, dev, value=None, named=False):
    import indi.message as M
    if kind == "getProperties":
        # `named`: the request is for ONE property - of the named device or, without a device, of every device
        return M.GetProperties(version="1.7", device=dev, name="P") if named else M.GetProperties(version="1.7", device=dev)
    if kind == "enableBLOB":
        return M.EnableBLOB(device=dev, value=value)
    if kind == "pingReply":
        return M.PingReply(uid="u")
    if kind == "pingRequest":
        return M.PingRequest(uid="u")
    if kind == "delProperty":
        return M.DelProperty(device=dev)
    if kind == "message":
        return M.Message(device=dev, message="m")
    cls = getattr(M, kind[:1].upper() + kind[1:])
    if kind.startswith("new"):
        return cls(device=dev, name="P", children=())
    if kind.startswith("set"):
        return cls(device=dev, name="P", state="Ok", children=())
    kw = dict(device=dev, name="P", state="Ok", children=())
    if kind != "defLightVector":
        kw["perm"] = "rw"
    if kind == "defSwitchVector":
        kw["rule"] = "AnyOfMany"
    return cls(**kw)


def kind_of(message):
    n = type(message).__name__
    return n[:1].lower() + n[1:]


_DRIVER_CLASSES = {}
# every delivery to ANY endpoint the harness ever created in this process (all Real routers): a router must not reach endpoints
# that were registered with another Router object (class-level / module-level state shared between routers)
ALL_DELIVERIES = [0]


def driver_class(name):
    """A real generated Driver (real `accepts`), recording what it is handed."""
    if name not in _DRIVER_CLASSES:
        from indi.device import Driver, properties

        def message_from_client(self, message):
            ALL_DELIVERIES[0] += 1
            self._vf_log.append(("dev", self._vf_id, message))
            if getattr(self, "_vf_react", None):
                self._vf_react("dev", self._vf_id, self, message)

        ns = {
            "name": name,
            "main": properties.Group("MAIN", vectors=dict(t=properties.TextVector("T", elements=dict(x=properties.Text("X"))))),
            "message_from_client": message_from_client,
        }
        _DRIVER_CLASSES[name] = type("Drv_" + name.replace("*", "any"), (Driver,), ns)
    return _DRIVER_CLASSES[name]


class Universe:
    """Endpoint ids and their kinds.  Device ids are device names; '*' is a
    catch-all device."""

    def __init__(self, devices, clients, real_drivers=("B",), names=None):
        self.devices = list(devices)
        self.clients = list(clients)
        self.real_drivers = set(real_drivers)
        self.names = list(names) if names is not None else [d for d in devices if d != "*"]

    def accepts(self):
        acc = {}
        for d in self.devices:
            if d == "*":
                acc[d] = lambda name: True
            else:
                acc[d] = (lambda dd: (lambda name: name is None or name == dd))(d)
        return acc


class Real:
    """A fresh real Router with recording endpoints."""

    def __init__(self, uni):
        from indi.routing import Client, Device, Router
        self.uni = uni
        self.router = Router()
        self.log = []
        log = self.log
        # re-entrant endpoints: (side, id) -> (trigger kinds, message kind, device name); each fires at most once per operation,
        # from INSIDE its delivery callback (as a real Driver answers getProperties, or an in-process client reacts to a definition)
        self.reactions = {}
        self.armed = set()
        real = self
        # every second client and the catch-all device are "empty containers" (falsy)
        self.falsy = set(uni.clients[1::2]) | {d for d in uni.devices if d == "*"}
        self.loop = None

        def react(side, eid, endpoint, message):
            r = real.reactions.get((side, eid))
            if r is None or (side, eid) not in real.armed or kind_of(message) not in r[0]:
                return
            real.armed.discard((side, eid))
            real.router.process_message(make_message(r[1], r[2]), sender=endpoint)
        self.react = react

        class RecDevice(Device):
            def __init__(s, did, acc):
                s.did = did
                s.acc = acc

            def accepts(s, device):
                return s.acc(device)

            def message_from_client(s, message):
                ALL_DELIVERIES[0] += 1
                log.append(("dev", s.did, message))
                react("dev", s.did, s, message)

            def __len__(s):
                # an endpoint may be a container that is empty right now (a client that knows no device yet, a device pool
                # without members): it is still an endpoint - the router must go by identity, never by truth value
                return 0 if s.did in real.falsy else 1

        class RecClient(Client):
            def __init__(s, cid):
                s.cid = cid

            def message_from_device(s, message):
                ALL_DELIVERIES[0] += 1
                log.append(("cli", s.cid, message))
                react("cli", s.cid, s, message)

            def __len__(s):
                return 0 if s.cid in real.falsy else 1

        self.RecDevice, self.RecClient = RecDevice, RecClient
        self.dev = {}
        self.cli = {c: RecClient(c) for c in uni.clients}
        self.acc = uni.accepts()

    registrations = 0

    def device_object(self, did):
        for x in self.router.devices:
            if getattr(x, "did", None) == did or getattr(x, "_vf_id", None) == did:
                return x
        raise LookupError(f"device {did!r} was registered with the router but the router no longer knows it")

    def apply(self, op):
        """Returns (deliveries as sorted list, exception or None).  With `self.loop` set the operation is executed INSIDE a running
        event loop (as the transports do) and the loop is drained before the deliveries are read: a router that defers a delivery
        to the loop is then still observed."""
        if getattr(self, "loop", None) is not None and not getattr(self, "_in_loop", False):
            async def run():
                self._in_loop = True
                try:
                    out = self.apply(op)
                finally:
                    self._in_loop = False
                before = len(self.log)
                for _ in range(3):
                    await asyncio.sleep(0)
                if len(self.log) != before:
                    out = (sorted((side, eid) for side, eid, m in self.log), out[1], out[2])
                return out
            return self.loop.run_until_complete(run())
        del self.log[:]
        self.armed = set(self.reactions)
        kind = op[0]
        exc = None
        all_before = ALL_DELIVERIES[0]
        try:
            if kind == "regdev":
                d = op[1]
                # The application does not necessarily keep the device object (`Camera(router=router)` as a statement): the
                # harness keeps NO reference of its own to devices, it finds them again through the router.
                if d in self.uni.real_drivers:
                    # the class declares its name; the constructor is ALSO given one (another one): the name the driver announces in
                    # every message - driver.name, here the declared one - is the name it has to answer to
                    drv = driver_class(d)(name="given-to-the-constructor", router=self.router)   # registers itself
                    assert drv.name == d, drv.name
                    drv._vf_log, drv._vf_id, drv._vf_react = self.log, d, self.react
                    del drv
                else:
                    self.router.register_device(self.RecDevice(d, self.acc[d]))
                self.dev[d] = True
                import gc
                Real.registrations += 1
                if Real.registrations % 61 == 0:
                    gc.collect()
            elif kind == "regcli":
                self.router.register_client(self.cli[op[1]])
            elif kind == "unregcli":
                self.router.unregister_client(self.cli[op[1]])
            elif kind == "rereg":
                self.router.unregister_client(self.cli[op[1]])
                self.router.register_client(self.cli[op[1]])
            elif kind == "blob":
                self.router.process_message(make_message("enableBLOB", op[2], op[3]), sender=self.cli[op[1]])
            elif kind == "csend":
                sender = self.cli[op[1]] if op[1] is not None else None
                msg = make_message(op[2], op[3], named=len(op) > 4)
                self._msg = msg
                self.router.process_message(msg, sender=sender) if sender is not None else self.router.process_message(msg)
            elif kind == "dsend":
                msg = make_message(op[2], op[3], named=len(op) > 4)
                self._msg = msg
                self.router.process_message(msg, sender=self.device_object(op[1]))
            else:
                raise AssertionError(op)
        except Exception as e:  # noqa
            exc = e
        got = sorted((side, eid) for side, eid, m in self.log)
        self.leaked = ALL_DELIVERIES[0] - all_before - len(self.log)     # deliveries to endpoints of OTHER routers of this process
        ident_ok = all(m is getattr(self, "_msg", m) for _, _, m in self.log) if kind in ("csend", "dsend") and not self.reactions else True
        return got, exc, ident_ok


def model_apply(model, op):
    kind = op[0]
    if kind == "regdev":
        model.register_device(op[1])
        return []
    if kind == "regcli":
        model.register_client(op[1])
        return []
    if kind == "unregcli":
        model.unregister_client(op[1])
        return []
    if kind == "rereg":
        model.unregister_client(op[1])
        model.register_client(op[1])
        return []
    if kind == "blob":
        return model.deliver("enableBLOB", op[2], op[1], op[3])
    if kind == "csend":
        return model.deliver(op[2], op[3], op[1])
    if kind == "dsend":
        return model.deliver(op[2], op[3], op[1])
    raise AssertionError(op)


def state_ops(uni, model):
    """State-changing operations enabled in the model state."""
    ops = []
    for d in uni.devices:
        if d not in model.devices:
            ops.append(("regdev", d))
    for c in uni.clients:
        if c not in model.clients:
            ops.append(("regcli", c))
        else:
            ops.append(("unregcli", c))
            ops.append(("rereg", c))
            for name in uni.names:
                for v in POLICIES:
                    ops.append(("blob", c, name, v))
    return ops


def send_ops(uni, model, extra_names=("U", "")):
    """Operations that do not change the router state: the probe suite."""
    ops = []
    cnames = list(uni.names) + [None] + list(extra_names)
    for c in list(model.clients) + [None]:
        for name in cnames:
            ops.append(("csend", c, "getProperties", name))
        # getProperties for one property: of one device, and - no device given - of every device
        ops.append(("csend", c, "getProperties", None, "named"))
        ops.append(("csend", c, "getProperties", uni.names[0], "named"))
        for k in NEW_KINDS:
            for name in list(uni.names) + list(extra_names):
                ops.append(("csend", c, k, name))
        ops.append(("csend", c, "pingReply", None))
    for d in model.devices:
        dnames = [d] if d != "*" else list(uni.names)
        for name in dnames:
            for k in DEF_KINDS + SET_KINDS + ["delProperty", "message"]:
                ops.append(("dsend", d, k, name))
        ops.append(("dsend", d, "message", None))
        ops.append(("dsend", d, "pingRequest", None))
        # a device (e.g. a proxy) may itself send getProperties: goes to the OTHER devices and to clients
        for name in list(uni.names) + [None]:
            ops.append(("dsend", d, "getProperties", name))
    return ops


def classify(op, model_before, want, got, exc):
    """List of (origin, mechanism) for one mismatching operation."""
    out = []
    kind = op[0]
    if exc is not None:
        origin = "client" if kind in ("csend", "blob") else ("device" if kind == "dsend" else "registry")
        return [(origin, f"router-raises:{type(exc).__name__}")]
    cw, cg = Counter(want), Counter(got)
    msgkind = op[2] if kind in ("csend", "dsend") else ("enableBLOB" if kind == "blob" else kind)
    sender = op[1] if kind in ("csend", "dsend", "blob") else None
    name = op[3] if kind in ("csend", "dsend") else (op[2] if kind == "blob" else None)
    for key in set(cw) | set(cg):
        side, eid = key
        w, g = cw.get(key, 0), cg.get(key, 0)
        if w == g:
            continue
        if side == "dev":
            origin = "client"
            if eid == sender:
                mech = "handed-back-to-sender"
            elif g > w and w >= 1:
                mech = "delivered-more-than-once"
            elif g > w:
                mech = "delivered-to-non-accepting-or-unregistered-device"
            else:
                mech = "accepting-device-missed"
        else:
            if kind in ("csend", "blob") and msgkind != "getProperties":
                origin = "client"
                mech = "device-bound-kind-leaked-to-client"
            elif kind in ("csend",) and eid == sender:
                origin = "client"
                mech = "handed-back-to-sender"
            else:
                origin = "device"
                blob = "blob" if msgkind in BLOB_KINDS else "nonblob"
                registered = eid in model_before.clients
                pol = model_before.policy.get(eid, {}).get(name, "unset") if registered else "unregistered"
                if eid == sender:
                    mech = "delivered-to-sender"
                elif g > w and w >= 1:
                    mech = "delivered-more-than-once"
                elif g > w:
                    mech = f"{blob}-delivered-despite-policy-{pol}"
                else:
                    mech = f"{blob}-missing-for-policy-{pol}"
                if msgkind == "getProperties":
                    mech = "relay-" + mech
        out.append((origin, mech))
    return out


class Explorer:
    def __init__(self, ctx, uni, judge, case_base):
        self.ctx = ctx
        self.uni = uni
        self.judge = judge            # "client" (C04) or "device" (C05)
        self.case_base = case_base

    def materialise(self, history):
        real = Real(self.uni)
        for op in history:
            real.apply(op)
        return real

    def compare(self, real, model, op, history, skey=None):
        before = model.clone()
        if skey is None:
            skey = before.key()
        self.ctx.evaluations += 1
        self.ctx.distinct.add(hash((skey, op)) & 0xFFFFFFFFFFFFFFFF)
        want = model_apply(model, op)
        got, exc, ident_ok = real.apply(op)
        self.ctx.count("transitions")
        self.ctx.count("deliveries_observed", len(got))
        if getattr(real, "leaked", 0):
            self.ctx.violate("delivered-to-an-endpoint-of-another-router", f"op {op}: {real.leaked} deliveries went to endpoints registered with "
                             "a different Router object of this process", self.case(history, op))
        if op[0] in ("csend", "blob"):
            self.ctx.count("client_originated_messages")
        elif op[0] == "dsend":
            self.ctx.count("device_originated_messages")
        if not ident_ok:
            self.ctx.violate("message-object-replaced", "an endpoint was handed a different message object", self.case(history, op))
        if exc is None and got == want:
            return True
        for origin, mech in classify(op, before, want, got, exc):
            if origin == self.judge or origin == "registry":
                self.ctx.violate(mech, f"op {op}: expected deliveries {want}, observed {got}" + (f", raised {exc!r}" if exc else ""),
                                 self.case(history, op), {"model_state": before.key()})
            else:
                self.ctx.count("mismatches_owned_by_other_property")
        return False

    def case(self, history, op):
        return dict(self.case_base, history=[list(o) for o in history], op=list(op))

    def bfs(self, max_states=None, shard=None):
        """Breadth-first over model states; every transition and, after every
        state-changing transition, the whole probe suite is compared."""
        uni = self.uni
        m0 = Model(uni.accepts())
        seen = {m0.key(): []}
        queue = deque([m0.key()])
        models = {m0.key(): m0}
        idx = 0
        while queue:
            key = queue.popleft()
            model = models.pop(key)
            history = seen[key]
            idx += 1
            mine = shard is None or shard(idx)
            if mine:
                self.ctx.count("states")
                # probe suite in this state on one real router
                real = self.materialise(history)
                mm = model.clone()
                for op in send_ops(uni, mm):
                    self.compare(real, mm, op, history, key)
                if idx % 97 == 1:
                    self.ctx.sample({"state_history": [list(o) for o in history], "probes": len(send_ops(uni, mm))})
            for op in state_ops(uni, model):
                m2 = model.clone()
                model_apply(m2, op)
                k2 = m2.key()
                if mine:
                    # the transition itself, then probes in the successor reached THIS way
                    real = self.materialise(history)
                    mm = model.clone()
                    ok = self.compare(real, mm, op, history, key)
                    if k2 in seen and seen[k2] != history + [op]:
                        # successor reached by a non-shortest path: behaviour must match too
                        for pop in send_ops(uni, mm):
                            self.compare(real, mm, pop, history + [op], ("via", key, op))
                if k2 not in seen:
                    seen[k2] = history + [op]
                    models[k2] = m2
                    queue.append(k2)
                    if max_states and len(seen) >= max_states:
                        queue.clear()
                        break
            if self.ctx.enough():
                break
        return len(seen)


def random_history(ctx, uni, judge, i, length):
    rng = ctx.rng("hist", i)
    ex = Explorer(ctx, uni, judge, {"mode": "random", "i": i, "length": length, "uni": [uni.devices, uni.clients]})
    real = Real(uni)
    if i % 2:
        real.loop = asyncio.new_event_loop()
        ctx.count("histories_inside_a_running_event_loop")
    model = Model(uni.accepts())
    history = []
    for step in range(length):
        r = rng.random()
        sops = state_ops(uni, model)
        if r < 0.35 and sops:
            op = rng.choice(sops)
            # prefer registrations early
            if step < 6:
                regs = [o for o in sops if o[0].startswith("reg")]
                if regs:
                    op = rng.choice(regs)
        else:
            pops = send_ops(uni, model)
            op = rng.choice(pops)
        ex.compare(real, model, op, history)
        history.append(op)
    if real.loop is not None:
        real.loop.close()
    ctx.count("random_histories")
    if i % 50 == 0:
        ctx.sample({"random_history": [list(o) for o in history[:25]]})


def replay_history(ctx, uni, judge, history, op):
    ex = Explorer(ctx, uni, judge, {"mode": "replay"})
    real = Real(uni)
    model = Model(uni.accepts())
    h = []
    for o in history:
        o = tuple(o)
        ex.compare(real, model, o, h)
        h.append(o)
    ex.compare(real, model, tuple(op), h)
    # and probe the resulting state
    for pop in send_ops(uni, model):
        ex.compare(real, model, pop, h + [tuple(op)])


# ---- re-entrant endpoints --------------------------------------------------------------------------------------------

CLIENT_TRIGGERS = DEF_KINDS + SET_KINDS + ["getProperties", "message", "delProperty"]
DEVICE_TRIGGERS = NEW_KINDS + ["getProperties", "enableBLOB"]


def reactive_expected(model, op, reactions):
    """Expected multiset of deliveries when endpoints answer from inside their callbacks.  No reaction changes the router
    state and each endpoint fires at most once per operation, so the multiset does not depend on the router's iteration order."""
    total = Counter()
    fired = set()
    if op[0] == "blob":
        # the one state-changing top-level operation: the new policy is in force for everything the message sets off, including
        # what a device sends back from inside its handling of the enableBLOB
        work = [("enableBLOB", op[2], op[1], op[3])]
    else:
        work = [(op[2], op[3], op[1], None)]
    while work:
        kind, name, sender, value = work.pop()
        for side, eid in (model.deliver(kind, name, sender, value) if kind == "enableBLOB" else model.deliver(kind, name, sender)):
            total[(side, eid)] += 1
            r = reactions.get((side, eid))
            if r is not None and (side, eid) not in fired and kind in r[0]:
                fired.add((side, eid))
                work.append((r[1], r[2], eid, None))
    return total, fired


def reactive_history(ctx, uni, judge, i):
    """A random router state, 1..3 endpoints that send from inside their delivery callback, then send operations."""
    rng = ctx.rng("reactive", i)
    real = Real(uni)
    model = Model(uni.accepts())
    history = []
    for d in uni.devices:
        if rng.random() < 0.85:
            history.append(("regdev", d))
    for c in uni.clients:
        if rng.random() < 0.85:
            history.append(("regcli", c))
            for name in uni.names:
                if rng.random() < 0.6:
                    history.append(("blob", c, name, rng.choice(POLICIES)))
    for op in history:
        model_apply(model, op)
        real.apply(op)
    reactions = {}
    endpoints = [("dev", d) for d in model.devices] + [("cli", c) for c in model.clients]
    rng.shuffle(endpoints)
    for side, eid in endpoints[:rng.choice([1, 2, 2, 3])]:
        if side == "cli":
            trig = set(rng.sample(CLIENT_TRIGGERS, rng.choice([2, 5, len(CLIENT_TRIGGERS)])))
            kind = rng.choice(["getProperties"] + NEW_KINDS + ["pingReply"])
            name = rng.choice(list(uni.names) + ["U"]) if kind != "pingReply" else None
            if kind == "getProperties" and rng.random() < 0.4:
                name = None
        else:
            trig = set(rng.sample(DEVICE_TRIGGERS, rng.choice([1, 3, len(DEVICE_TRIGGERS)])))
            kind = rng.choice(DEF_KINDS + SET_KINDS + ["setBLOBVector", "message", "delProperty"])
            name = eid if eid != "*" else rng.choice(uni.names)
        reactions[(side, eid)] = (trig, kind, name)
    real.reactions = reactions
    pops = [o for o in send_ops(uni, model)]
    pops += [("blob", c, name, v) for c in model.clients for name in uni.names for v in POLICIES] * 3
    case_base = {"mode": "reactive", "i": i, "uni": [uni.devices, uni.clients]}
    for step in range(12):
        op = rng.choice(pops)
        want, fired = reactive_expected(model, op, reactions)
        got_list, exc, _ = real.apply(op)
        got = Counter(got_list)
        ctx.evaluations += 1
        ctx.distinct.add(hash(("reactive", i, step)) & 0xFFFFFFFFFFFFFFFF)
        ctx.count("transitions")
        ctx.count("deliveries_observed", len(got_list))
        ctx.count("reentrant_operations")
        ctx.count("reentrant_sends_from_inside_a_delivery", len(fired))
        ctx.count("client_originated_messages" if op[0] in ("csend", "blob") else "device_originated_messages")
        if op[0] == "blob":
            history.append(op)
            ctx.count("reentrant_enableBLOB_operations")
        if exc is None and got == want:
            continue
        case = dict(case_base, step=step, op=list(op))
        detail = {"history": [list(o) for o in history], "reactions": {f"{k[0]}:{k[1]}": [sorted(v[0]), v[1], v[2]] for k, v in reactions.items()},
                  "expected": sorted(want.elements()), "observed": sorted(got.elements())}
        if exc is not None:
            ctx.violate(f"reentrant:router-raises:{type(exc).__name__}", f"op {op} with re-entrant endpoints raised {exc!r}", case, detail)
            continue
        sides = {k[0] for k in set(want) | set(got) if want.get(k, 0) != got.get(k, 0)}
        for side in sorted(sides):
            owner = "client" if side == "dev" else "device"
            if owner != judge:
                ctx.count("mismatches_owned_by_other_property")
                continue
            missing = sorted(k for k in want if k[0] == side and got.get(k, 0) < want[k])
            extra = sorted(k for k in got if k[0] == side and got[k] > want.get(k, 0))
            what = "missed" if missing and not extra else ("extra" if extra and not missing else "wrong")
            ctx.violate(f"reentrant:{'device' if side == 'dev' else 'client'}-deliveries-{what}",
                        f"op {op}, endpoints sending from inside their callbacks: missing {missing}, unexpected {extra}", case, detail)
    ctx.count("reactive_histories")
    if i % 100 == 0:
        ctx.sample({"reactive_history": [list(o) for o in history][:12], "reactions": {f"{k[0]}:{k[1]}": [v[1], v[2]] for k, v in reactions.items()}})
