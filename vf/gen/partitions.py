"""Partitions of a stream into consecutive pieces (DESIGN §2.3)."""
from __future__ import annotations

import itertools
import re


def cut(text, cuts):
    cuts = sorted(set(c for c in cuts if 0 < c < len(text)))
    out = []
    prev = 0
    for c in cuts:
        out.append(text[prev:c])
        prev = c
    out.append(text[prev:])
    return out


def all_k_cuts(n, k):
    """All sets of k cut positions in a text of length n."""
    return itertools.combinations(range(1, n), k)


def structural_positions(text):
    """Positions inside tag names, entities, right after '?>' and around '<' '>' '/'."""
    pos = set()
    for m in re.finditer(r"<[A-Za-z?/]", text):
        pos.update((m.start(), m.start() + 1, m.start() + 2, m.start() + 4))
    for m in re.finditer(r"&[#a-zA-Z0-9]*;", text):
        pos.update(range(m.start(), m.end() + 1))
    for m in re.finditer(r"\?>|/>|>", text):
        pos.update((m.start(), m.start() + 1, m.end(), m.end() + 1))
    for m in re.finditer(r"[\"']", text):
        pos.update((m.start(), m.start() + 1))
    return sorted(p for p in pos if 0 < p < len(text))


def random_cuts(rng, n, k):
    if n <= 1:
        return []
    k = min(k, n - 1)
    return sorted(rng.sample(range(1, n), k))


def fixed(text, size):
    return [text[i:i + size] for i in range(0, len(text), size)] or [""]
