"""Hostile stream generator for the framing buffer (DESIGN §2.3 gen.junk).

A stream is a list of labelled pieces:
  ("valid", text, am)        a valid message (abstract message am)
  ("junk", text, None)       junk that does not imitate a protocol element
  ("imitating", text, None)  junk that contains '<' + a registered tag name
  ("truncated", text, am)    a valid message cut short
"""
from __future__ import annotations

from vf.gen import messages as G

KNOWN_TAGS = list(G.GRAMMAR) + ["oneLight"]

FRAG_IMITATING = [
    '<getProperties version="1.0">', "<getProperties", '<getProperties version="1.0"', "</getProperties>",
    '<setTextVector device="a" name="b" state="Ok">', "</setTextVector>", "<defSwitchVector ", '<newNumberVector device="x"',
    "<message", "<messages>", "<oneLight", '<oneLight name="l">Ok</oneLight>', "<delProperty device='",
    '<enableBLOB device="a">Sometimes</enableBLOB>', "<getProperties/>", '<getProperties version="1.0" version="2"/>',
    '<setSwitchVector device="a" name="b" state="Ok"><oneSwitch name="x">Maybe</oneSwitch></setSwitchVector>',
    '<setNumberVector device="a" name="b" state="Sleeping"/>', '<newTextVector device="a" name="b"><oneFoo name="x"/></newTextVector>',
    '<defTextVector device="a" name="b" state="Ok" perm="rw"><oneText name="x">v</oneText></defTextVector>',
    "<!-- <getProperties -->", "<![CDATA[<pingRequest uid='1'/>]]>", '<pingReply uid="1"', "<pingRequest>", "</pingRequest>",
    '<setBLOBVector device="a" name="b" state="Ok"><oneBLOB name="x" size="3" format=".b">QUJD', "</oneBLOB></setBLOBVector>",
    # complete elements whose VALUES are what a validator may choke on: long runs of field separators in a number, long runs
    # of one character in a state / switch / text value (each stays far below any junk threshold)
    '<newNumberVector device="a" name="b"><oneNumber name="x">1' + " " * 19 + 'x</oneNumber></newNumberVector>',
    '<setNumberVector device="a" name="b" state="Ok"><oneNumber name="x">1' + " :" * 10 + '!</oneNumber></setNumberVector>',
    '<newNumberVector device="a" name="b"><oneNumber name="x">12' + "; " * 11 + '</oneNumber></newNumberVector>',
    '<newNumberVector device="a" name="b"><oneNumber name="x">' + "1:" * 30 + '</oneNumber></newNumberVector>',
    '<newNumberVector device="a" name="b"><oneNumber name="x">' + "9" * 60 + "e" + "9" * 60 + '</oneNumber></newNumberVector>',
    '<newSwitchVector device="a" name="b"><oneSwitch name="x">' + "On" * 40 + '</oneSwitch></newSwitchVector>',
    '<setLightVector device="a" name="b" state="' + "Ok " * 30 + '"/>',
    # complete elements with MIXED content: stray characters right after the opening tag of a vector, in front of a child that is
    # not acceptable - the element as a whole is corrupt and must not come out as a message of any shape
    '<newSwitchVector device="a" name="b">@@<oneSwitch name="x">Maybe</oneSwitch></newSwitchVector>',
    '<setTextVector device="a" name="b" state="Ok">stray<oneFoo name="x"/></setTextVector>',
    '<defNumberVector device="a" name="b" state="Ok" perm="rw">x<defNumber name="n" format="%f" min="0" max="1" step="0">abc</defNumber></defNumberVector>',
    '<newTextVector device="a" name="b">&amp;<oneText>no name</oneText></newTextVector>',
]

FRAG_PLAIN = [
    "<foo>", "</foo>", "<bar/>", "<hbshjshjbsbjh />", "<asdF><aaaa/></asdF>", "<asdf>", ' name="x"', " state='Ok'", '"', "'", "<", ">",
    "&", "&amp;", "&#", "&#x;", "&lt;", "<!-- x -->", "<!--", "-->", "<![CDATA[ x ]]>", "<![CDATA[", "]]>", '<?xml version="1.0"?>',
    "<?xml", "?>", "\x00", "<!DOCTYPE x>", " ", "\n", "\r\n", "\t", "junk", "junk2", "<oneText name=\"a\">v</oneText>",
    "<oneSwitch name=\"s\">Maybe</oneSwitch>", "<defNumber", "</", "/>", "<<", ">>", "<>", "< getProperties", "<GETPROPERTIES/>",
    "<get", "<getProp", "<set", "<new", "<def", "<one", "=", "<a b='c' d=\"e\">", "\xff\xfe", "\x85", "\xa0",
]


def imitates(text):
    return any(("<" + t) in text for t in KNOWN_TAGS)


def rand_latin1(rng, n):
    return "".join(chr(rng.choice([rng.randrange(1, 256), rng.randrange(32, 127), ord("<"), ord(">"), ord("&"), ord('"'), 0]))
                   for _ in range(n))


def junk_piece(rng, imitating):
    n = rng.choice([1, 1, 2, 3, 4, 6])
    out = []
    for _ in range(n):
        r = rng.random()
        if imitating and r < 0.5:
            out.append(rng.choice(FRAG_IMITATING))
        elif r < 0.85:
            out.append(rng.choice(FRAG_PLAIN))
        else:
            out.append(rand_latin1(rng, rng.choice([1, 3, 8, 20])))
    text = "".join(out)
    if imitating and not imitates(text):
        text += rng.choice(FRAG_IMITATING)
    return text


def small_valid(rng):
    tag = rng.choice(["getProperties", "enableBLOB", "pingRequest", "pingReply", "newSwitchVector", "setLightVector",
                      "delProperty", "message", "setTextVector", "newNumberVector", "defTextVector"])
    am = G.gen_message(rng, tag=tag, nchildren=rng.choice([0, 1, 2]))
    for a in list(am["attrs"]):
        if a not in G.GRAMMAR[tag]["vocab"] and rng.random() < 0.7:
            am["attrs"][a] = rng.choice(["A", "x>y", "é", "a&b", "CAM"])
    sp = G.spellings(rng, 1)[0]
    sp["decl"] = rng.choice([0, 0, 0, 1])
    sp["indent"] = rng.choice([0, 0, 0, 1])
    sp["tail"] = rng.choice(["", "", "\n"])
    text = G.write_xml(am, sp)
    return am, text, len(sp["tail"])


def gen_stream(rng, flavour=None):
    """Returns list of pieces (label, text, am, tail_len)."""
    flavour = flavour or rng.choice(["plain-junk", "imitating", "truncated", "mixed", "mixed", "only-junk", "enclosed"])
    pieces = []
    if flavour == "enclosed":
        # a stray opener and, further on, its stray closer: together they form ONE well-formed but invalid element AROUND valid
        # messages, which must be delivered all the same
        tag, attrs = rng.choice([("newTextVector", 'device="a" name="b"'), ("setTextVector", 'device="a" name="b" state="Ok"'),
                                 ("defSwitchVector", 'device="a" name="b" state="Ok" perm="rw" rule="AnyOfMany"'),
                                 ("setNumberVector", 'device="a" name="b"'), ("message", 'device="a"'), ("getProperties", 'version="1.7"')])
        if rng.random() < 0.3:
            pieces.append(("junk", junk_piece(rng, False), None, 0))
        pieces.append(("imitating", f"<{tag} {attrs}>", None, 0))
        for _ in range(rng.choice([1, 1, 2, 3])):
            am, text, tail = small_valid(rng)
            pieces.append(("valid", text, am, tail))
            if rng.random() < 0.3:
                pieces.append(("junk", rng.choice([" ", "\n", "text between", "&amp;"]), None, 0))
        pieces.append(("imitating", f"</{tag}>", None, 0))
        if rng.random() < 0.5:
            am, text, tail = small_valid(rng)
            pieces.append(("valid", text, am, tail))
        return flavour, pieces
    n = rng.choice([2, 3, 4, 6])
    for k in range(n):
        r = rng.random()
        if flavour == "only-junk":
            pieces.append(("imitating", junk_piece(rng, True), None, 0) if rng.random() < 0.5
                          else ("junk", junk_piece(rng, False), None, 0))
            continue
        if r < 0.45:
            am, text, tail = small_valid(rng)
            pieces.append(("valid", text, am, tail))
        elif flavour == "plain-junk" or (flavour == "mixed" and r < 0.7):
            t = junk_piece(rng, False)
            pieces.append(("imitating" if imitates(t) else "junk", t, None, 0))
        elif flavour == "imitating" or (flavour == "mixed" and r < 0.85):
            pieces.append(("imitating", junk_piece(rng, True), None, 0))
        else:
            am, text, tail = small_valid(rng)
            body = text[:len(text) - tail] if tail else text
            cutat = rng.randrange(1, max(2, len(body)))
            pieces.append(("truncated", body[:cutat], am, 0))
    if flavour != "only-junk" and not any(p[0] == "valid" for p in pieces):
        am, text, tail = small_valid(rng)
        pieces.append(("valid", text, am, tail))
    return flavour, pieces
