"""Abstract INDI messages over the full grammar the library implements, plus
writers: (a) through the library constructors, (b) as XML text in a chosen
foreign spelling (DESIGN §2.3).

An abstract message is JSON-able:
    {"tag": str, "attrs": {name: str|int|float}, "text": str|None,
     "children": [{"tag", "attrs", "text"}, ...] | None}
"""
from __future__ import annotations

import itertools

STATES = ["Idle", "Ok", "Busy", "Alert"]
PERMS = ["ro", "wo", "rw"]
RULES = ["OneOfMany", "AtMostOne", "AnyOfMany"]
SWITCH = ["On", "Off"]
BLOBEN = ["Never", "Also", "Only"]

KINDS5 = ["Text", "Number", "Switch", "Light", "BLOB"]
KINDS4 = ["Text", "Number", "Switch", "BLOB"]

# tag -> spec
GRAMMAR = {}


def _g(tag, req, opt, text=None, child=None, vocab=None, direction=""):
    GRAMMAR[tag] = dict(tag=tag, req=req, opt=opt, text=text, child=child, vocab=vocab or {}, dir=direction)


_g("getProperties", ["version"], ["device", "name"], direction="cd")
_g("enableBLOB", ["device"], ["name"], text="bloben", direction="c")
_g("delProperty", ["device"], ["name", "timestamp", "message"], direction="d")
_g("message", [], ["device", "timestamp", "message"], direction="d")
_g("pingRequest", ["uid"], [], direction="d")
_g("pingReply", ["uid"], [], direction="c")
for k in KINDS5:
    req = ["device", "name", "state"]
    opt = ["label", "group", "timestamp", "message"]
    vocab = {"state": STATES}
    if k != "Light":
        req = req + ["perm"]
        opt = opt + ["timeout"]
        vocab["perm"] = PERMS
    if k == "Switch":
        req = req + ["rule"]
        vocab["rule"] = RULES
    _g(f"def{k}Vector", req, opt, child=f"def{k}", vocab=vocab, direction="d")
    _g(f"set{k}Vector", ["device", "name", "state"], ["timeout", "timestamp", "message"],
       child=f"one{k}", vocab={"state": STATES}, direction="d")
for k in KINDS4:
    _g(f"new{k}Vector", ["device", "name"], ["timestamp"], child=f"one{k}", direction="c")

# child tag -> spec
PARTS = {}
for k in KINDS5:
    PARTS[f"def{k}"] = dict(req=["name"] + (["format", "min", "max", "step"] if k == "Number" else []),
                            opt=["label"], value=k)
    PARTS[f"one{k}"] = dict(req=["name"] + (["size", "format"] if k == "BLOB" else []), opt=[], value=k)

ALL_TAGS = list(GRAMMAR)
CLIENT_TAGS = [t for t, s in GRAMMAR.items() if "c" in s["dir"]]
DEVICE_TAGS = [t for t, s in GRAMMAR.items() if "d" in s["dir"]]

# ---------------------------------------------------------------------------
# value generators

ASCII = "abcdefghijklmnopqrstuvwxyzABCDEFGHIJKLMNOPQRSTUVWXYZ0123456789_-.:/"
MARKUP = "<>&\"'"
INNER_WS = " \n\t"
LATIN1 = "éüßñ©µÿ¡"
BMP = "ąłΩ中文€☃�"
ASTRAL = "\U0001f315\U0001f311\U00010348\U0001d11e"
TRICKY = ["&amp;", "&lt;", "&gt;", "&quot;", "&apos;", "&#38;", "&#x26;", "&amp;amp;", "&amp;lt;", "&#10;", "%s", "%d", "{0}", "{}", "\\n", "\\",
          "]]>", "<![CDATA[", "<!--", "-->", "<?", "?>", "</", "/>", "None", "null", "0", "''", '""']


def gen_string(rng, classes=None, maxlen=12, allow_empty=True, inner_ws=True):
    """Text over XML-representable characters; never CR, never leading or
    trailing white space, never XML-forbidden code points."""
    n = rng.choice([0, 1, 1, 2, 3, 5, 8, maxlen]) if allow_empty else rng.choice([1, 1, 2, 3, 5, 8, maxlen])
    pools = [ASCII, ASCII, ASCII, MARKUP, LATIN1, BMP, ASTRAL] if classes is None else classes
    mode = rng.random()
    out = []
    for i in range(n):
        if mode < 0.4:
            pool = ASCII
        else:
            pool = rng.choice(pools)
        if inner_ws and 0 < i < n - 1 and rng.random() < 0.12:
            out.append(rng.choice(INNER_WS))
        elif classes is None and rng.random() < 0.06:
            out.append(rng.choice(TRICKY))      # literal text that looks like markup, entities or format directives
        else:
            out.append(rng.choice(pool))
    return "".join(out)


# names a device, property or element may perfectly well have, which happen to be words the implementation uses for itself
IMPLEMENTATION_WORD_NAMES = ["value", "children", "name", "device", "state", "message", "timestamp", "on"]


def gen_name(rng):
    return rng.choice(["A", "B", "CAMERA", "EXPOSE", "x1", "Telescope Simulator", "CCD_EXPOSURE_VALUE"] + IMPLEMENTATION_WORD_NAMES) \
        if rng.random() < 0.6 else gen_string(rng, maxlen=10, allow_empty=False)


def gen_number_text(rng):
    r = rng.random()
    sign = "-" if rng.random() < 0.3 else ""
    if r < 0.3:
        return sign + str(rng.randrange(0, 100000))
    if r < 0.6:
        return sign + "%d.%s" % (rng.randrange(0, 1000), "".join(rng.choice("0123456789") for _ in range(rng.randrange(1, 7))))
    if r < 0.75:
        return sign + "%d:%02d" % (rng.randrange(0, 360), rng.randrange(0, 60))
    if r < 0.9:
        return sign + "%d:%02d:%02d" % (rng.randrange(0, 360), rng.randrange(0, 60), rng.randrange(0, 60))
    return sign + "%d:%02d:%02d.%d" % (rng.randrange(0, 360), rng.randrange(0, 60), rng.randrange(0, 60), rng.randrange(0, 100))


B64 = "ABCDEFGHIJKLMNOPQRSTUVWXYZabcdefghijklmnopqrstuvwxyz0123456789+/"


def gen_b64(rng, nbytes=None):
    import base64
    if nbytes is None:
        nbytes = rng.choice([0, 1, 2, 3, 4, 7, 16, 33, 60, 150, 400])
    data = bytes(rng.randrange(256) for _ in range(nbytes))
    return base64.b64encode(data).decode("ascii"), nbytes


def gen_attr_value(rng, tag, attr, vocab):
    if attr in vocab:
        return rng.choice(vocab[attr])
    if attr in ("min", "max", "step", "timeout"):
        r = rng.random()
        if r < 0.3:
            return rng.choice([0, 1, 100, -5])
        if r < 0.45:
            return rng.choice([0.0, 0.5, 1000.25, -1.5])
        if r < 0.6:
            # Python floats that need more than six significant digits, or an exponent, to be written faithfully
            return rng.choice([86400.125, 2415020.5, 23.9999999, 1 / 3600, 123456789.125, -0.30000000000000004, 1e-07, 1e+16, 359.99999999])
        return rng.choice(["0", "1", "100.5", "-90", "360"])
    if attr == "format":
        return rng.choice(["%f", "%.2f", "%6.3f", "%d", "%.3m", "%10.6m", "%9.9m", "%g"])
    if attr == "version":
        return rng.choice(["1.7", "1.0", "2.0"])
    if attr == "timestamp":
        return rng.choice(["2024-01-02T03:04:05", "2024-01-02T03:04:05.678901", gen_string(rng, [ASCII], 8, False, False)])
    if attr == "uid":
        return gen_string(rng, [ASCII], 8, False, False)
    if attr in ("device", "name"):
        return gen_name(rng)
    return gen_string(rng)


def gen_part(rng, ptag, name=None):
    spec = PARTS[ptag]
    attrs = {}
    kind = spec["value"]
    text = None
    for a in spec["req"]:
        if a == "name":
            attrs[a] = name if name is not None else gen_name(rng)
        elif a == "size":
            pass
        elif a == "format" and kind == "BLOB":
            attrs[a] = rng.choice([".fits", ".txt", "", ".fits.z", gen_string(rng, maxlen=6)])
        else:
            attrs[a] = gen_attr_value(rng, ptag, a, {})
    for a in spec["opt"]:
        if rng.random() < 0.5:
            attrs[a] = gen_string(rng)
    if kind == "Text":
        text = gen_string(rng) if rng.random() < 0.85 else None
    elif kind == "Number":
        text = gen_number_text(rng)
    elif kind == "Switch":
        text = rng.choice(SWITCH)
    elif kind == "Light":
        text = rng.choice(STATES)
    elif kind == "BLOB":
        if ptag.startswith("one"):
            text, n = gen_b64(rng)
            attrs["size"] = n if rng.random() < 0.5 else str(n)
            if text == "":
                text = None
        else:
            text = None
    return {"tag": ptag, "attrs": attrs, "text": text}


def gen_message(rng, tag=None, opt_subset=None, nchildren=None):
    if tag is None:
        tag = rng.choice(ALL_TAGS)
    spec = GRAMMAR[tag]
    attrs = {}
    for a in spec["req"]:
        attrs[a] = gen_attr_value(rng, tag, a, spec["vocab"])
    opts = spec["opt"]
    if opt_subset is None:
        opt_subset = [a for a in opts if rng.random() < 0.5]
    for a in opt_subset:
        attrs[a] = gen_attr_value(rng, tag, a, spec["vocab"])
    text = None
    if spec["text"] == "bloben":
        text = rng.choice(BLOBEN)
    children = None
    if spec["child"]:
        if nchildren is None:
            nchildren = rng.choice([0, 1, 1, 2, 3, 5])
        names = []
        children = []
        for i in range(nchildren):
            nm = gen_name(rng)
            if nm in names:
                nm = nm + str(i)
            names.append(nm)
            children.append(gen_part(rng, spec["child"], nm))
    return {"tag": tag, "attrs": attrs, "text": text, "children": children}


def opt_subsets(tag):
    opts = GRAMMAR[tag]["opt"]
    for r in range(len(opts) + 1):
        for c in itertools.combinations(opts, r):
            yield list(c)


# ---------------------------------------------------------------------------
# building library objects


def _cls_name(tag):
    return tag[:1].upper() + tag[1:]


def lib_part(am):
    from indi.message import def_parts, one_parts
    name = _cls_name(am["tag"])
    cls = getattr(def_parts, name, None) or getattr(one_parts, name)
    return cls(value=am["text"], **am["attrs"])


def lib_message(am):
    """What a user of the library would construct."""
    import indi.message as M
    cls = getattr(M, _cls_name(am["tag"]))
    kw = dict(am["attrs"])
    if am.get("text") is not None:
        kw["value"] = am["text"]
    if am.get("children") is not None:
        kw["children"] = tuple(lib_part(c) for c in am["children"])
    return cls(**kw)


# ---------------------------------------------------------------------------
# XML text in foreign spellings


def _esc_text(s, charrefs, rng):
    out = []
    for ch in s:
        if ch == "<":
            out.append("&lt;")
        elif ch == "&":
            out.append("&amp;")
        elif ch == ">" and ((charrefs & 1) or "".join(out[-2:]) == "]]"):
            out.append("&gt;")          # ']]>' must not appear literally in character data
        elif ord(ch) > 127 and (charrefs & 2):
            out.append("&#%d;" % ord(ch) if (charrefs & 4) else "&#x%x;" % ord(ch))
        else:
            out.append(ch)
    return "".join(out)


def _esc_attr(s, quote, charrefs):
    out = []
    for ch in s:
        if ch == "<":
            out.append("&lt;")
        elif ch == "&":
            out.append("&amp;")
        elif ch == quote:
            out.append("&quot;" if quote == '"' else "&apos;")
        elif ch in "\n\t":
            out.append("&#%d;" % ord(ch))
        elif ch == ">" and (charrefs & 1):
            out.append("&gt;")
        elif ord(ch) > 127 and (charrefs & 2):
            out.append("&#%d;" % ord(ch))
        else:
            out.append(ch)
    return "".join(out)


DEFAULT_SPELLING = dict(decl=0, indent=0, quote='"', order=0, empty=0, charrefs=0, tail="\n", attrsep=" ", eq="=", pre_gt="", seed=0)


def spellings(rng, n):
    out = []
    for i in range(n):
        out.append(dict(
            decl=rng.choice([0, 1, 2, 3]),          # none / version / version+encoding / single-quoted decl
            indent=rng.choice([0, 0, 1, 2]),        # compact / newline+2 spaces / tabs
            quote=rng.choice(['"', "'"]),
            order=rng.choice([0, 1, 2]),            # as given / sorted / shuffled
            empty=rng.choice([0, 1, 2]),            # <a/> / <a /> / <a></a>
            charrefs=rng.randrange(8),
            tail=rng.choice(["", "\n", "\r\n", " \n"]),
            # white space inside tags: before each attribute (one attribute per line, tabs, CR LF), around '=', before '>'
            attrsep=rng.choice([" ", " ", " ", " ", "\n", "\t", "\r\n ", "  ", "\n    "]),
            eq=rng.choice(["=", "=", "=", " = ", "= "]),
            pre_gt=rng.choice(["", "", "", " ", "\n", "\t"]),
            seed=rng.randrange(1 << 30),
        ))
    return out


def write_xml(am, sp=None):
    """XML text of an abstract message in spelling `sp` (str)."""
    import random
    sp = dict(DEFAULT_SPELLING, **(sp or {}))
    r = random.Random(sp["seed"])
    q = sp["quote"]

    def attrs_text(attrs):
        items = [(k, str(v)) for k, v in attrs.items()]
        if sp["order"] == 1:
            items.sort()
        elif sp["order"] == 2:
            r.shuffle(items)
        return "".join(f"{sp['attrsep']}{k}{sp['eq']}{q}{_esc_attr(v, q, sp['charrefs'])}{q}" for k, v in items)

    def elem(tag, attrs, text, children, level):
        nl = ""
        ind = ""
        if sp["indent"] == 1:
            nl, ind = "\n", "  "
        elif sp["indent"] == 2:
            nl, ind = "\n", "\t"
        head = f"<{tag}{attrs_text(attrs)}"
        pg = sp["pre_gt"]
        if not children and (text is None or text == ""):
            if sp["empty"] == 0:
                return head + pg + "/>"
            if sp["empty"] == 1:
                return head + " />"
            return head + pg + f"></{tag}{pg}>"
        body = ""
        if text is not None:
            t = _esc_text(text, sp["charrefs"], r)
            if children is None and sp["indent"] and level > 0:
                t = nl + ind * (level + 1) + t + nl + ind * level
            elif sp["indent"] and level == 0 and not children:
                t = nl + ind + t + nl
            body += t
        if children:
            for c in children:
                body += nl + ind * (level + 1) + elem(c["tag"], c["attrs"], c["text"], None, level + 1)
            body += nl + ind * level
        return head + pg + ">" + body + f"</{tag}{pg}>"

    decl = ["", '<?xml version="1.0"?>\n', '<?xml version="1.0" encoding="UTF-8"?>\n', "<?xml version='1.0'?>"][sp["decl"]]
    return decl + elem(am["tag"], am["attrs"], am["text"], am.get("children"), 0) + sp["tail"]
