"""Operation histories over the public driver API (DESIGN §2.3 gen.histories).

Driver-side operation (JSON-able):
  ["assign", dev, gattr, vattr, eattr, value]
  ["set_value", dev, gattr, vattr, eattr, value]
  ["bool", dev, gattr, vattr, eattr, bool]
  ["state", dev, gattr, vattr, state]
  ["venable", dev, gattr, vattr, bool]
  ["genable", dev, gattr, bool]
  ["eenable", dev, gattr, vattr, eattr, bool]
  ["selected", dev, gattr, vattr, element name]
  ["selecteds", dev, gattr, vattr, [element names]]
values: text -> str; number -> float/int; switch -> "On"/"Off"; light -> state;
blob -> {"b64": ..., "format": ...}
"""
from __future__ import annotations

import base64

from vf.gen import drivers as D
from vf.gen import messages as G

NUMBER_VALUES = [0, 1, -1, 0.5, -0.5, 12.2625, -12.2625, 359.9999, 100, 1e-3, 123456.789, -0.25, 59.9999 / 60, 7, 42.42]


def gen_value(rng, kind, e=None):
    if kind in ("Text", "Number", "BLOB") and rng.random() < 0.05:
        return None            # "unset": a driver may clear a value
    if kind == "Text":
        return G.gen_string(rng, allow_empty=False)
    if kind == "Number":
        return rng.choice(NUMBER_VALUES) if rng.random() < 0.7 else round(rng.uniform(-360, 360), rng.choice([0, 2, 5]))
    if kind == "Switch":
        return rng.choice(G.SWITCH)
    if kind == "Light":
        return rng.choice(G.STATES)
    if kind == "BLOB":
        n = rng.choice([0, 1, 2, 3, 10, 100])
        data = bytes(rng.randrange(256) for _ in range(n))
        return {"b64": base64.b64encode(data).decode("ascii"), "format": rng.choice([".bin", ".fits", "", ".txt"])}
    raise AssertionError(kind)


def to_native(kind, value):
    if kind == "BLOB" and isinstance(value, dict):
        from indi.device import values
        return values.BLOB(base64.b64decode(value["b64"]), value["format"])
    return value


def gen_driver_op(rng, devname, spec, allow=("assign", "set_value", "bool", "state", "venable", "genable", "selected")):
    loc = D.locate(spec)
    gattr, vattr, g, v = rng.choice(loc)
    kind = v["kind"]
    choices = []
    for a in allow:
        if a in ("assign", "set_value", "eenable"):
            choices.append(a)
        elif a == "bool" and kind == "Switch":
            choices += ["bool", "bool"]
        elif a in ("selected", "selecteds") and kind == "Switch":
            choices.append(a)
        elif a in ("state", "venable", "genable"):
            choices.append(a)
    op = rng.choice(choices)
    e = rng.choice(v["elements"])
    if op in ("assign", "set_value"):
        return [op, devname, gattr, vattr, e["attr"], gen_value(rng, kind, e)]
    if op == "bool":
        return ["bool", devname, gattr, vattr, e["attr"], rng.random() < 0.5]
    if op == "state":
        return ["state", devname, gattr, vattr, rng.choice(G.STATES)]
    if op == "venable":
        return ["venable", devname, gattr, vattr, rng.random() < 0.6]
    if op == "genable":
        return ["genable", devname, gattr, rng.random() < 0.6]
    if op == "eenable":
        return ["eenable", devname, gattr, vattr, e["attr"], rng.random() < 0.5]
    if op == "selected":
        return ["selected", devname, gattr, vattr, e["name"]]
    if op == "selecteds":
        names = [x["name"] for x in v["elements"] if rng.random() < 0.5]
        if v.get("rule") in ("OneOfMany", "AtMostOne"):
            names = names[:1]
        if v.get("rule") == "OneOfMany" and not names:
            names = [e["name"]]
        return ["selecteds", devname, gattr, vattr, names]
    raise AssertionError(op)


def kind_of(spec, gattr, vattr):
    for ga, va, g, v in D.locate(spec):
        if ga == gattr and va == vattr:
            return v["kind"]
    raise KeyError((gattr, vattr))


def apply_driver_op(drv, spec, op):
    name = op[0]
    if name in ("assign", "set_value"):
        _, _, gattr, vattr, eattr, value = op
        el = D.element_of(drv, gattr, vattr, eattr)
        value = to_native(kind_of(spec, gattr, vattr), value)
        if name == "assign":
            el.value = value
        else:
            el.set_value(value)
    elif name == "bool":
        _, _, gattr, vattr, eattr, b = op
        D.element_of(drv, gattr, vattr, eattr).bool_value = b
    elif name == "state":
        _, _, gattr, vattr, st = op
        D.vector_of(drv, gattr, vattr).state_ = st
    elif name == "venable":
        _, _, gattr, vattr, b = op
        D.vector_of(drv, gattr, vattr).enabled = b
    elif name == "genable":
        _, _, gattr, b = op
        D.group_of(drv, gattr).enabled = b
    elif name == "eenable":
        _, _, gattr, vattr, eattr, b = op
        D.element_of(drv, gattr, vattr, eattr).enabled = b
    elif name == "selected":
        _, _, gattr, vattr, nm = op
        D.vector_of(drv, gattr, vattr).selected_value = nm
    elif name == "selecteds":
        _, _, gattr, vattr, names = op
        D.vector_of(drv, gattr, vattr).selected_values = list(names)
    else:
        raise AssertionError(op)
