"""Generated driver definitions (DESIGN §2.3 gen.drivers).

A driver spec is JSON-able:
  {"name": str, "levels": [ {"groups": [group, ...]}, ... ]}      base ... leaf
  group  = {"attr","name","enabled","vectors":[vector,...]}
  vector = {"attr","kind","name","label","state","perm","timeout","enabled","rule","default_on","elements":[element,...]}
  element= {"attr","name","label","default","enabled","format","min","max","step"}

build(spec) creates FRESH classes through the real DriverMeta every time
(indipy keeps event handlers on the class-level definition objects).
"""
from __future__ import annotations

import itertools

from vf.gen import messages as G

KINDS = ["Text", "Number", "Switch", "Light", "BLOB"]
NUMBER_FORMATS = ["%f", "%.2f", "%d", "%.0f", "%6.2f", "%+.3f", "%.3m", "%.5m", "%.6m", "%.8m", "%10.9m", "%g"]
SAFE_NUMBER_FORMATS = ["%f", "%.2f", "%.3f", "%.3m", "%.6m", "%.9m"]
_counter = itertools.count()


def gen_element(rng, kind, idx, formats=None):
    el = {"attr": f"e{idx}", "name": f"EL{idx}" if rng.random() < 0.8 else f"el {idx}<&>", "label": None,
          "default": None, "enabled": True}
    if rng.random() < 0.5:
        el["label"] = G.gen_string(rng, maxlen=8, allow_empty=False)
    if kind == "Text":
        if rng.random() < 0.7:
            el["default"] = G.gen_string(rng, allow_empty=False)
    elif kind == "Number":
        el["format"] = rng.choice(formats or NUMBER_FORMATS)
        r = rng.random()
        if r < 0.45:
            el["min"], el["max"], el["step"] = None, None, 0
        elif r < 0.8:
            # incl. declared floats that need more than six significant digits / an exponent to be written faithfully
            el["min"], el["max"], el["step"] = (rng.choice([0, -90, -1000.5, -2415020.5, -0.30000000000000004]),
                                                rng.choice([100, 90, 1000.5, 23.9999999, 2415020.5, 1e+16]),
                                                rng.choice([0, 1, 0.5, 1 / 3600, 1e-07]))
        else:
            el["min"], el["max"], el["step"] = 0, None, 1
        if rng.random() < 0.7:
            el["default"] = rng.choice([0, 1, 100, -12.2625, 0.5, -0.5, 359.9999, 42, 1.5e-3, 123456.789])
    elif kind == "Light":
        if rng.random() < 0.5:
            el["default"] = rng.choice(G.STATES)
    return el


def gen_vector(rng, idx, kind=None, uniq="", formats=None):
    kind = kind or rng.choice(KINDS)
    n = rng.choice([1, 2, 2, 3, 4])
    v = {"attr": f"v{idx}", "kind": kind, "name": f"VEC{uniq}{idx}", "label": None, "state": None, "perm": None,
         "timeout": None, "enabled": rng.random() < 0.8, "elements": [gen_element(rng, kind, i, formats) for i in range(n)]}
    if rng.random() < 0.4:
        v["label"] = G.gen_string(rng, maxlen=10, allow_empty=False)
    if rng.random() < 0.5:
        v["state"] = rng.choice(G.STATES)
    if kind != "Light":
        if rng.random() < 0.5:
            v["perm"] = rng.choice(G.PERMS)
        if rng.random() < 0.4:
            v["timeout"] = rng.choice([0, 5, 60, 2.5, 59.99999, 86400.125])
    if kind == "Switch":
        v["rule"] = rng.choice(G.RULES)
        names = [e["name"] for e in v["elements"]]
        if v["rule"] == "OneOfMany":
            v["default_on"] = rng.choice(names)
        elif v["rule"] == "AtMostOne":
            v["default_on"] = rng.choice(names + [None])
        else:
            on = [nm for nm in names if rng.random() < 0.4]
            v["default_on"] = on or None
    return v


STANDARD = ["common.Connection", "common.DriverInfo", "focuser.AbsolutePosition", "focuser.RelativePosition", "focuser.FocusMax",
            "focuser.FocusMotion", "ccd.Exposure", "ccd.UploadMode"]


def _factory(path):
    from indi.device.properties import standard
    mod, fn = path.split(".")
    return getattr(getattr(standard, mod), fn)


def std_vector_spec(path, attr):
    """Spec of one of the library's ready-made standard properties, read off the definition object it returns."""
    d = _factory(path)()
    kind = type(d).__name__.replace("Vector", "")
    v = {"attr": attr, "kind": kind, "name": d.name, "label": d.label if d.label != d.name else None, "state": d.state,
         "perm": d.perm, "timeout": d.timeout, "enabled": bool(d.enabled), "factory": path, "elements": []}
    for k, e in d.elements.items():
        el = {"attr": k, "name": e.name, "label": e.label if e.label != e.name else None, "default": e.default, "enabled": bool(e.enabled)}
        if kind == "Number":
            el.update(format=e.format, min=e.min, max=e.max, step=e.step)
        v["elements"].append(el)
    if kind == "Switch":
        v["rule"] = d.rule
        v["default_on"] = [e.name for e in d.elements.values() if e.default == "On"] or None
    return v


def gen_spec(rng, name="DEV", depth=None, max_groups=3, formats=None, kinds=None):
    depth = depth if depth is not None else rng.choice([1, 1, 2, 3])
    levels = []
    vidx = 0
    gidx = 0
    for lv in range(depth):
        groups = []
        ng = rng.choice([1, 1, 2]) if depth > 1 else rng.randrange(1, max_groups + 1)
        for g in range(ng):
            vectors = []
            for _ in range(rng.choice([1, 2, 2, 3])):
                vectors.append(gen_vector(rng, vidx, kind=(rng.choice(kinds) if kinds else None), formats=formats))
                vidx += 1
            groups.append({"attr": f"g{gidx}", "name": f"GROUP{gidx}", "enabled": rng.random() < 0.85, "vectors": vectors})
            gidx += 1
        # optionally override a group of the base level (same attribute name, new content)
        if lv > 0 and rng.random() < 0.3 and levels[-1]["groups"]:
            base_g = rng.choice(levels[-1]["groups"])
            vectors = [gen_vector(rng, vidx, formats=formats)]
            vidx += 1
            groups.append({"attr": base_g["attr"], "name": base_g["name"] + "_OVR", "enabled": True, "vectors": vectors})
        levels.append({"groups": groups})
    if kinds is None and rng.random() < 0.3:
        # a group made of the library's ready-made standard properties (each at most once per device: fixed names)
        picks = rng.sample(STANDARD, rng.randrange(1, 5))
        levels[rng.randrange(len(levels))]["groups"].append(
            {"attr": "std", "name": "STANDARD", "enabled": rng.random() < 0.85,
             "vectors": [std_vector_spec(p, f"s{k}") for k, p in enumerate(picks)]})
    spec = {"name": name, "levels": levels}
    if depth > 1 and rng.random() < 0.5:
        spec["instantiate_bases"] = True      # base classes of the chain are used as drivers too (instances created base first)
    return spec


def ensure_all_kinds_reachable(spec):
    return spec


def effective_groups(spec):
    """attr -> group spec after inheritance (leaf-most definition wins;
    attribute order: base first)."""
    out = {}
    for lv in spec["levels"]:
        for g in lv["groups"]:
            out[g["attr"]] = g
    return out


def vectors_of(spec):
    """[(group spec, vector spec)] of the effective definition, unique names."""
    out = []
    seen = {}
    for g in effective_groups(spec).values():
        for v in g["vectors"]:
            seen[v["name"]] = (g, v)
    # a later vector with the same name replaces an earlier one in Driver._vectors
    return list(seen.values())


def _element_def(kind, e):
    from indi.device import properties
    cls = getattr(properties, kind)
    kw = {}
    if e.get("label") is not None:
        kw["label"] = e["label"]
    if e.get("default") is not None:
        kw["default"] = e["default"]
    if not e.get("enabled", True):
        kw["enabled"] = False
    if kind == "Number":
        kw["format"] = e["format"]
        if e.get("min") is not None:
            kw["min"] = e["min"]
        if e.get("max") is not None:
            kw["max"] = e["max"]
        kw["step"] = e.get("step", 0)
    return cls(e["name"], **kw)


def _vector_def(v):
    from indi.device import properties
    if v.get("factory"):
        return _factory(v["factory"])()
    cls = getattr(properties, v["kind"] + "Vector")
    kw = {"elements": {e["attr"]: _element_def(v["kind"], e) for e in v["elements"]}}
    for k in ("label", "state", "perm", "timeout"):
        if v.get(k) is not None:
            kw[k] = v[k]
    if not v.get("enabled", True):
        kw["enabled"] = False
    if v["kind"] == "Switch":
        kw["rule"] = v["rule"]
        d = v.get("default_on")
        if d is not None:
            kw["default_on"] = tuple(d) if isinstance(d, list) else d
    vdef = cls(v["name"], **kw)
    # the element definition objects exactly as they were PASSED IN (an application may keep such references and subscribe
    # handlers through them rather than through group.vector.element)
    try:
        vdef._vf_original_elements = kw["elements"]
    except Exception:
        pass
    return vdef


def _group_def(g):
    from indi.device import properties
    return properties.Group(g["name"], enabled=g.get("enabled", True),
                            vectors={v["attr"]: _vector_def(v) for v in g["vectors"]})


NAME_PROPERTY_DRIVERS = [0]    # drivers built whose public name comes from an overridden `name` property
OVERRIDDEN_HANDLERS = [0]      # driver chains built whose leaf overrides a vetoing Write handler of its base


def build(spec, extra_ns=None, leaf_hook=None):
    """Returns the leaf class (fresh classes for the whole chain).
    leaf_hook(ns, defs) may add methods (event handlers) to the leaf
    namespace; defs maps group attr -> definition object of this level."""
    from indi.device import Driver
    base = Driver
    n = next(_counter)
    last = len(spec["levels"]) - 1
    all_defs = {}
    guarded = []
    import json
    import zlib
    h = zlib.crc32(json.dumps(spec, sort_keys=True, default=repr).encode())       # a function of the definition: replays build the same classes
    # How the device gets its name: a class attribute (default), or - every fourth generated definition - a `name` property the leaf
    # class overrides (a name derived from a serial number, say).  The name everybody sees is the public one.
    name_style = spec.get("name_style") or ("property" if h % 4 == 3 and not spec.get("no_class_name") else "class")
    for li, lv in enumerate(spec["levels"]):
        ns = {} if spec.get("no_class_name") else {"name": spec["name"]}
        for g in lv["groups"]:
            gd = _group_def(g)
            ns[g["attr"]] = gd
            all_defs[g["attr"]] = gd
        if len(spec["levels"]) >= 2 and not spec.get("instantiate_bases"):
            # The base driver talks to hardware: a Write handler on everything it defines refuses the value until the device
            # confirms.  The leaf (a simulator) overrides that method - re-decorated or plain - so the base handler is not in
            # force for it and every write is simply taken.
            from indi.device import events as _ev
            if li == 0:
                guarded = [e for g in lv["groups"] for v in ns[g["attr"]].vectors.values() for e in v.elements.values()]

                def _vf_confirm_write(self, event):
                    event.prevent_default = True
                if guarded:
                    ns["_vf_confirm_write"] = _ev.on(guarded, _ev.Write)(_vf_confirm_write)
                    OVERRIDDEN_HANDLERS[0] += 1
            elif li == last and guarded:
                def _vf_confirm_write(self, event):
                    pass
                ns["_vf_confirm_write"] = _ev.on(guarded, _ev.Write)(_vf_confirm_write) if h % 2 else _vf_confirm_write
        if li == last and name_style == "property":
            ns["name"] = property(lambda self, _n=spec["name"]: _n)
            NAME_PROPERTY_DRIVERS[0] += 1
        if li == last:
            if extra_ns:
                ns.update(extra_ns)
            if leaf_hook:
                leaf_hook(ns, all_defs)
        base = type(f"Gen{n}_{spec['name']}_L{li}".replace(" ", "_"), (base,), ns)
        if spec.get("instantiate_bases") and li != last:
            base(name=f"{spec['name']}_BASE{li}", router=None)    # a stand-alone driver of the base class, created first
    return base


# ---------------------------------------------------------------------------
# access through the public API


def group_of(drv, gattr):
    return getattr(drv, gattr)


def vector_of(drv, gattr, vattr):
    return group_of(drv, gattr).vectors[vattr]


def element_in(vec, eattr):
    """Element `eattr` of a vector instance.  The library only offers attribute access, which an element key such as
    'name' (standard DRIVER_INFO) loses against the vector's own attribute: fall back to the instance dictionary."""
    el = getattr(vec, eattr, None)
    if el is None or not hasattr(el, "set_value"):
        el = vec._elements[eattr]
    return el


def element_of(drv, gattr, vattr, eattr):
    return element_in(vector_of(drv, gattr, vattr), eattr)


def locate(spec):
    """[(gattr, vattr, group spec, vector spec)] of the effective definition."""
    out = []
    for gattr, g in effective_groups(spec).items():
        for v in g["vectors"]:
            out.append((gattr, v["attr"], g, v))
    return out


def missing_groups(drv, spec):
    """Group attributes of the effective definition the instance does not have."""
    out = []
    for gattr, g in effective_groups(spec).items():
        grp = getattr(drv, gattr, None)
        if grp is None or getattr(grp, "name", None) != g["name"]:
            out.append(gattr)
    return out


def group_level(spec, gattr):
    """Index of the level (0 = base) that provides the effective definition."""
    lvl = None
    for i, lv in enumerate(spec["levels"]):
        for g in lv["groups"]:
            if g["attr"] == gattr:
                lvl = i
    return lvl
