"""Framework core: tiers, seeds, sharding, verdicts, evidence, replay files,
known-findings matching and repo targeting (DESIGN §2.1, §2.5, §2.7)."""
from __future__ import annotations

import argparse
import faulthandler
import hashlib
import importlib
import json
import os
import random
import subprocess
import sys
import tempfile
import time
import traceback

VERIF = os.path.dirname(os.path.dirname(os.path.abspath(__file__)))
REPO = os.path.realpath(os.environ.get("VERIF_REPO", "/repo"))
EVIDENCE_DIR = os.path.join(VERIF, "evidence")
REPLAY_DIR = os.path.join(VERIF, "replays")
KNOWN_FILE = os.path.join(VERIF, "known_findings.json")
NSHARDS = int(os.environ.get("VERIF_SHARDS", "16"))

ALL_PROPS = ["C%02d" % i for i in range(1, 21)]


class Inconclusive(Exception):
    pass


import logging as _logging


class LogCounter(_logging.Handler):
    """indipy's own log records, counted (and the last few kept) instead of
    being printed: several checks use "an exception was logged" as a monitor."""

    def __init__(self):
        super().__init__()
        self.counts = {}
        self.last = []

    def emit(self, record):
        k = f"{record.levelname}:{record.name}"
        self.counts[k] = self.counts.get(k, 0) + 1
        if record.levelno >= _logging.WARNING:
            self.last.append((record.levelname, record.name, record.getMessage()[:200],
                              repr(record.exc_info[1])[:300] if record.exc_info else None))
            del self.last[:-20]

    def mark(self):
        return dict(self.counts)

    def since(self, mark, prefix="ERROR"):
        return sum(v - mark.get(k, 0) for k, v in self.counts.items() if k.startswith(prefix))


LOGS = LogCounter()


def target_repo():
    """Make `import indi` resolve to the working tree under test."""
    if REPO not in sys.path[:1]:
        sys.path.insert(0, REPO)
    import indi  # noqa

    f = os.path.realpath(indi.__file__)
    if not f.startswith(REPO + os.sep):
        raise SystemExit(f"indi imported from {f}, expected under {REPO}")
    import logging

    lg = logging.getLogger("indi")
    if not any(isinstance(h, LogCounter) for h in lg.handlers):
        lg.addHandler(LOGS)
        lg.propagate = False
        lg.setLevel(logging.INFO)
    return indi


def h64(obj) -> int:
    if not isinstance(obj, (str, bytes)):
        obj = json.dumps(obj, sort_keys=True, default=repr, ensure_ascii=True)
    if isinstance(obj, str):
        obj = obj.encode("utf-8", "surrogatepass")
    return int.from_bytes(hashlib.blake2b(obj, digest_size=8).digest(), "big")


def jsonable(o, depth=0):
    if depth > 12:
        return repr(o)
    if isinstance(o, (str, int, float, bool)) or o is None:
        return o
    if isinstance(o, bytes):
        return {"__bytes__": o.hex()} if len(o) <= 256 else {"__bytes_len__": len(o), "head": o[:64].hex()}
    if isinstance(o, dict):
        return {str(k): jsonable(v, depth + 1) for k, v in o.items()}
    if isinstance(o, (list, tuple, set, frozenset)):
        return [jsonable(v, depth + 1) for v in o]
    return repr(o)


class Ctx:
    def __init__(self, prop, tier, seed, shard=0, nshards=1, replaying=False):
        self.prop = prop
        self.tier = tier
        self.seed = seed
        self.shard = shard
        self.nshards = nshards
        self.replaying = replaying
        self.t0 = time.time()
        self.evaluations = 0
        self.distinct = set()
        self.samples = []
        self.counters = {}
        self.sets = {}
        self.violations = {}
        self.inconclusive = []
        self.notes = {}
        self.reach = {}
        self._sample_every = 1

    # -- randomness ------------------------------------------------------
    def rng(self, *key) -> random.Random:
        return random.Random("/".join([str(self.seed), self.prop] + [str(k) for k in key]))

    @property
    def thorough(self):
        return self.tier == "thorough"

    def mine(self, i) -> bool:
        """Shard filter for enumerations."""
        return i % self.nshards == self.shard

    def elapsed(self):
        return time.time() - self.t0

    # -- bookkeeping -------------------------------------------------------
    def count(self, name, n=1):
        self.counters[name] = self.counters.get(name, 0) + n

    def seen(self, name, item):
        self.sets.setdefault(name, set()).add(item if isinstance(item, int) else h64(item))

    def case(self, desc, nontrivial=True, sample=None):
        """Register one evaluated case.  `desc` identifies it (hashed)."""
        self.evaluations += 1
        if nontrivial:
            self.distinct.add(desc if isinstance(desc, int) else h64(desc))
        if len(self.samples) < 3 or (self.evaluations % self._sample_every == 0 and len(self.samples) < 8):
            self.samples.append(jsonable(sample if sample is not None else desc))
            if len(self.samples) >= 3:
                self._sample_every = max(self._sample_every * 7, 50)

    def case_fast(self, key, nontrivial=True):
        """Cheap variant for multi-million enumerations: key is a hashable
        tuple (PYTHONHASHSEED is pinned, so hash() is reproducible)."""
        self.evaluations += 1
        if nontrivial:
            self.distinct.add(hash(key) & 0xFFFFFFFFFFFFFFFF)

    def sample(self, s):
        if len(self.samples) < 8:
            self.samples.append(jsonable(s))

    def violate(self, key, what, case, detail=None):
        """Record a violation.  `key` names the mechanism (never a hash)."""
        key = f"{self.prop}:{key}"
        v = self.violations.get(key)
        if v is None:
            self.violations[key] = {
                "key": key,
                "what": what,
                "case": jsonable(case),
                "detail": jsonable(detail),
                "count": 1,
                "indi_log_level": _logging.getLevelName(_logging.getLogger("indi").level),
            }
        else:
            v["count"] += 1

    def violated(self):
        return bool(self.violations)

    def enough(self):
        """True once continuing cannot change the verdict and would only cost
        time: a hang was reproduced a few times, or very many violations."""
        total = 0
        for k, v in self.violations.items():
            total += v["count"]
            if ("-hang" in k or "stall" in k) and v["count"] >= 3:
                return True
        return total >= 2000

    def mark_inconclusive(self, why):
        if why not in self.inconclusive:
            self.inconclusive.append(why)

    # -- (de)serialisation for shard workers -------------------------------
    def dump(self):
        return {
            "evaluations": self.evaluations,
            "distinct": sorted(self.distinct),
            "samples": self.samples,
            "counters": self.counters,
            "sets": {k: sorted(v) for k, v in self.sets.items()},
            "violations": self.violations,
            "inconclusive": self.inconclusive,
            "notes": self.notes,
            "reach": self.reach,
        }

    def merge(self, d):
        self.evaluations += d["evaluations"]
        self.distinct.update(d["distinct"])
        for s in d["samples"]:
            if len(self.samples) < 8:
                self.samples.append(s)
        for k, v in d["counters"].items():
            self.counters[k] = self.counters.get(k, 0) + v
        for k, v in d["sets"].items():
            self.sets.setdefault(k, set()).update(v)
        for k, v in d["violations"].items():
            if k in self.violations:
                self.violations[k]["count"] += v["count"]
            else:
                self.violations[k] = v
        for w in d["inconclusive"]:
            self.mark_inconclusive(w)
        for k, v in d.get("notes", {}).items():
            self.notes.setdefault(k, v)
        for k, v in d.get("reach", {}).items():
            self.reach[k] = self.reach.get(k, 0) + v


# ---------------------------------------------------------------------------


def load_known():
    try:
        with open(KNOWN_FILE) as f:
            return json.load(f).get("findings", [])
    except FileNotFoundError:
        return []


def load_module(prop):
    return importlib.import_module(f"vf.props.{prop}")


def run_module(mod, ctx):
    from vf.reach import Reach
    # the library's logging configuration is a dimension of every workload: every second worker runs with the `indi`
    # loggers at DEBUG (records are counted by LogCounter, never printed), the others at INFO
    debug = ctx.nshards > 1 and ctx.shard is not None and ctx.shard % 2 == 1
    _logging.getLogger("indi").setLevel(_logging.DEBUG if debug else _logging.INFO)
    ctx.counters["workers_with_indi_logging_at_" + ("DEBUG" if debug else "INFO")] = 1
    reach = Reach(REPO)
    reach.start()
    try:
        mod.run(ctx)
    except Inconclusive as e:
        ctx.mark_inconclusive(str(e))
    except Exception:
        ctx.mark_inconclusive("harness error: " + traceback.format_exc()[-1500:])
    finally:
        reach.stop()
        for k, v in reach.table().items():
            ctx.reach[k] = ctx.reach.get(k, 0) + v


def reach_report(mod, ctx):
    """Which anchored mechanisms (properties.jsonl) ran under the monitors."""
    from vf import reach as R
    anchors = R.anchors_of(ctx.prop, VERIF)
    exempt = getattr(mod, "REACH_EXEMPT", {})
    rows, never = [], []
    keys = list(ctx.reach)
    for a in anchors:
        hits = R.match(a, keys)
        name = f"{a[0]}:{a[1]}"
        n = sum(ctx.reach[h] for h in hits)
        rows.append({"anchor": name, "calls_capped": n, "functions": hits[:6]})
        if n == 0 and name not in exempt:
            never.append(name)
    return rows, never


def run_sharded(prop, tier, seed, ctx, timeout, nshards=None):
    NSHARDS = nshards or globals()["NSHARDS"]
    procs = []
    tmpdir = tempfile.mkdtemp(prefix=f"vf-{prop}-", dir=os.environ.get("VERIF_SCRATCH", None))
    try:
        for i in range(NSHARDS):
            out = os.path.join(tmpdir, f"shard{i}.json")
            cmd = [sys.executable, os.path.join(VERIF, "check"), prop, "--tier", tier,
                   "--shard", str(i), "--nshards", str(NSHARDS), "--out", out,
                   "--watchdog", str(timeout)]
            env = dict(os.environ, VERIF_SEED=str(seed), PYTHONHASHSEED="0")
            procs.append((i, out, subprocess.Popen(cmd, env=env, stdout=subprocess.DEVNULL,
                                                   stderr=subprocess.PIPE)))
        for i, out, p in procs:
            try:
                _, err = p.communicate(timeout=timeout + 60)
            except subprocess.TimeoutExpired:
                p.kill()
                p.communicate()
                ctx.mark_inconclusive(f"shard {i}: wall-clock watchdog ({timeout}s) fired")
                continue
            if not os.path.exists(out):
                tail = (err or b"").decode("utf-8", "replace")[-800:]
                ctx.mark_inconclusive(f"shard {i}: worker died (rc={p.returncode}): {tail}")
                continue
            with open(out) as f:
                ctx.merge(json.load(f))
    finally:
        for _, out, p in procs:
            if p.poll() is None:
                p.kill()
            try:
                os.unlink(out)
            except OSError:
                pass
        try:
            os.rmdir(tmpdir)
        except OSError:
            pass


def write_evidence(mod, ctx):
    os.makedirs(EVIDENCE_DIR, exist_ok=True)
    cov = {
        "evaluations": ctx.evaluations,
        "distinct_nontrivial": len(ctx.distinct),
        "rule": getattr(mod, "RULE", ""),
        "samples": ctx.samples[:8],
        "monitor_events": dict(sorted(ctx.counters.items())),
        "distinct_observed": {k: len(v) for k, v in sorted(ctx.sets.items())},
    }
    for k in ("states", "transitions"):
        if k in ctx.counters:
            cov[k] = ctx.counters[k]
        elif k in ctx.sets:
            cov[k] = len(ctx.sets[k])
    ex = getattr(mod, "exhaustive", None)
    if ex is not None:
        cov["exhaustive"] = bool(ex(ctx))
        cov["exhaustive_note"] = getattr(mod, "EXHAUSTIVE_NOTE", "")
    cov["indipy_functions_executed"] = len(ctx.reach)
    if ctx.notes:
        cov["notes"] = ctx.notes
    if ctx.inconclusive:
        cov["inconclusive"] = ctx.inconclusive
    ev = {
        "property_id": ctx.prop,
        "tier": ctx.tier,
        "seed": ctx.seed,
        "level": getattr(mod, "LEVEL", "exploration"),
        "coverage": cov,
        "assumptions": list(getattr(mod, "ASSUMPTIONS", [])),
        "wall_s": round(ctx.elapsed(), 2),
        "violations": sum(v["count"] for v in ctx.violations.values()),
        "violation_keys": sorted(ctx.violations),
        "verdict": _verdict(ctx),
        "repo": REPO,
    }
    path = os.path.join(EVIDENCE_DIR, f"{ctx.prop}.json")
    tmp = path + ".tmp"
    with open(tmp, "w") as f:
        json.dump(ev, f, indent=1, sort_keys=False, ensure_ascii=True)
        f.write("\n")
    os.replace(tmp, path)


def _verdict(ctx):
    """violated: a violation that known_findings.json does not list; held-except-known-findings: every violation key observed is a
    listed known finding (the run exits 0 and prints them as KNOWN-FINDING lines)."""
    if ctx.violations:
        known = {k["key"] for k in load_known() if k.get("property") == ctx.prop and k.get("status") == "known"}
        return "held-except-known-findings" if all(k in known for k in ctx.violations) else "violated"
    return "inconclusive" if ctx.inconclusive else "held-on-observed"


def report(ctx, write_replays=True):
    """Print verdict lines; return exit code."""
    known = {k["key"]: k for k in load_known() if k.get("property") == ctx.prop and k.get("status") == "known"}
    rc = 0
    for key, v in sorted(ctx.violations.items()):
        if key in known:
            print(f"KNOWN-FINDING: property={ctx.prop} {key} {known[key].get('what', v['what'])} (seen {v['count']}x)")
            continue
        rc = 1
        path = "-"
        if write_replays:
            os.makedirs(REPLAY_DIR, exist_ok=True)
            tag = "%016x" % h64(key)
            path = os.path.join(REPLAY_DIR, f"{ctx.prop}-{tag[:10]}.json")
            with open(path, "w") as f:
                json.dump({"property": ctx.prop, "seed": ctx.seed, "tier": ctx.tier, "key": key,
                           "indi_log_level": v.get("indi_log_level", "INFO"),
                           "what": v["what"], "case": v["case"], "detail": v["detail"],
                           "count": v["count"]}, f, indent=1, ensure_ascii=True)
                f.write("\n")
        print(f"VIOLATION property={ctx.prop} replay={path}")
        print(f"  key={key} count={v['count']}: {v['what']}")
    if rc == 0 and ctx.inconclusive:
        for w in ctx.inconclusive:
            print(f"INCONCLUSIVE property={ctx.prop}: {w}")
        rc = 2
    if rc == 0:
        print(f"HELD property={ctx.prop} tier={ctx.tier} seed={ctx.seed} evaluations={ctx.evaluations} "
              f"distinct={len(ctx.distinct)} wall={ctx.elapsed():.1f}s")
    return rc


def selftest():
    ok = True
    indi = target_repo()
    print("interpreter", sys.version.split()[0], "indi from", os.path.dirname(indi.__file__))
    if not hasattr(sys, "monitoring"):
        print("sys.monitoring missing")
        ok = False
    try:
        import aiofiles  # noqa
    except Exception as e:  # pragma: no cover
        print("aiofiles missing", e)
        ok = False
    from vf import instr
    if not instr.selftest():
        ok = False
    print("selftest", "ok" if ok else "FAILED")
    return 0 if ok else 1


def main(argv):
    ap = argparse.ArgumentParser(prog="check")
    ap.add_argument("prop", nargs="?")
    ap.add_argument("--tier", default=os.environ.get("VERIF_TIER", "quick"), choices=["quick", "thorough"])
    ap.add_argument("--replay")
    ap.add_argument("--selftest", action="store_true")
    ap.add_argument("--shard", type=int)
    ap.add_argument("--nshards", type=int, default=1)
    ap.add_argument("--out")
    ap.add_argument("--watchdog", type=int, default=0)
    ap.add_argument("--no-evidence", action="store_true")
    a = ap.parse_args(argv)

    if a.selftest:
        return selftest()
    if not a.prop:
        ap.error("property id required")
    seed = int(os.environ.get("VERIF_SEED", "0") or 0)
    target_repo()
    mod = load_module(a.prop)

    if a.replay:
        with open(a.replay) as f:
            rep = json.load(f)
        ctx = Ctx(a.prop, rep.get("tier", "quick"), rep.get("seed", seed), replaying=True)
        _logging.getLogger("indi").setLevel(getattr(_logging, str(rep.get("indi_log_level", "INFO")), _logging.INFO))
        try:
            mod.replay(ctx, rep["case"])
        except Inconclusive as e:
            ctx.mark_inconclusive(str(e))
        return report(ctx, write_replays=False)

    if a.shard is not None:  # worker
        if a.watchdog:
            faulthandler.dump_traceback_later(a.watchdog, exit=True)
        ctx = Ctx(a.prop, a.tier, seed, a.shard, a.nshards)
        run_module(mod, ctx)
        with open(a.out + ".tmp", "w") as f:
            json.dump(ctx.dump(), f)
        os.replace(a.out + ".tmp", a.out)
        return 0

    ctx = Ctx(a.prop, a.tier, seed)
    sharded = a.tier == "thorough" and getattr(mod, "SHARDED", True)
    qshards = int(os.environ.get("VERIF_QUICK_SHARDS", getattr(mod, "QUICK_SHARDS", 1)))
    if sharded:
        run_sharded(a.prop, a.tier, seed, ctx, getattr(mod, "THOROUGH_TIMEOUT", 9000))
    elif a.tier == "quick" and qshards > 1:
        # the quick tier may use several cores too: same workload definition, split over worker processes
        run_sharded(a.prop, a.tier, seed, ctx, getattr(mod, "QUICK_TIMEOUT", 900), nshards=qshards)
    else:
        faulthandler.dump_traceback_later(getattr(mod, "QUICK_TIMEOUT", 900), exit=True)
        run_module(mod, ctx)
        faulthandler.cancel_dump_traceback_later()
    rows, never = reach_report(mod, ctx)
    ctx.notes["anchored_functions_reached"] = rows
    if never and not ctx.violations:
        for nm in never:
            ctx.mark_inconclusive(f"anchored mechanism {nm} was never executed by the workload")
    if not ctx.violations and not ctx.inconclusive:
        if ctx.evaluations == 0 or len(ctx.distinct) < 2:
            ctx.mark_inconclusive("the workload produced fewer than two distinct non-trivial cases")
        for name in getattr(mod, "REQUIRED_EVENTS", []):
            if not ctx.counters.get(name):
                ctx.mark_inconclusive(f"deciding monitor '{name}' recorded no events")
    if not a.no_evidence:
        write_evidence(mod, ctx)
    return report(ctx)
